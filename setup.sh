#!/bin/bash
# Offline setup: verify interpreter and imports; install from the offline wheelhouse only if missing.
set -e
PY=/venv/bin/python
need=""
for m in numpy six; do $PY -c "import $m" 2>/dev/null || need="$need $m"; done
if [ -n "$need" ]; then /venv/bin/pip install --no-index --find-links /opt/veriftools/wheels $need; fi
$PY -c "import sys; sys.path.insert(0,'/repo'); import numpy, six, xfab; print('setup ok: python', sys.version.split()[0], 'numpy', numpy.__version__, 'xfab', xfab.__file__)"
mkdir -p /verif/evidence /verif/replays
