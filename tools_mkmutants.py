#!/venv/bin/python
"""Generates /verif/mutants/<prop>/<name>.patch from textual replacements on /repo's HEAD.

kind 'mutant'  : realistic breaking change (compiles, existing tests pass) -> check must report it
kind 'control' : property-preserving change -> check must stay silent
Patches are relative to the repository root (apply with `patch -p1` / `git apply`).
"""
import difflib
import json
import os
import subprocess
import sys

REPO = "/repo"
OUT = "/verif/mutants"

M = []


def mut(name, props, kind, file, old, new, count=1, note=""):
    M.append(dict(name=name, props=props, kind=kind, edits=[(file, old, new, count)], note=note))


def mut2(name, props, kind, edits, note=""):
    M.append(dict(name=name, props=props, kind=kind, edits=edits, note=note))


# ------------------------------------------------------------------ C20
mut("c20_setter_truthy", ["C20"], "mutant", "xfab/checks.py",
    "        if value is not True and value is not False:\n            raise ValueError(\"Please supply a boolean True or False\")\n        else:\n            self._run_checks = value",
    "        if value not in (True, False):\n            raise ValueError(\"Please supply a boolean True or False\")\n        else:\n            self._run_checks = value",
    note="accepts 0/1/0.0/1.0 (== True/False)")
mut("c20_setter_store_before_validate", ["C20"], "mutant", "xfab/checks.py",
    "        if value is not True and value is not False:\n            raise ValueError(\"Please supply a boolean True or False\")\n        else:\n            self._run_checks = value",
    "        self._run_checks = value\n        if value is not True and value is not False:\n            raise ValueError(\"Please supply a boolean True or False\")",
    note="rejected assignment leaves garbage in the switch")
mut("c20_guard_removed_laue_u_to_rod", ["C20"], "mutant", "xfab/laue.py",
    "    U = np.asarray(U_matrix, float)\n    if CHECKS.activated: checks._check_rotation_matrix(U)\n\n    ttt",
    "    U = np.asarray(U_matrix, float)\n\n    ttt", note="one of 15 guard sites dropped")
mut("c20_guard_inverted_tools_euler_to_u", ["C20"], "mutant", "xfab/tools.py",
    "    if CHECKS.activated: checks._check_euler_angles(phi1, PHI, phi2)",
    "    if not CHECKS.activated: checks._check_euler_angles(phi1, PHI, phi2)")
mut("c20_guard_cached_at_import_symmetry", ["C20"], "mutant", "xfab/symmetry.py",
    "    if CHECKS.activated:\n        checks._check_rotation_matrix(umat_1)",
    "    if _CHECKS_ON:\n        checks._check_rotation_matrix(umat_1)",
    note="needs 2nd edit below")
M[-1]["edits"].append(("xfab/symmetry.py", "logger = xfab_logging.get_module_level_logger(__name__)\n",
                       "logger = xfab_logging.get_module_level_logger(__name__)\n_CHECKS_ON = CHECKS.activated\n", 1))
mut("c20_tolerance_too_wide", ["C20"], "mutant", "xfab/checks.py",
    "np.eye(3,3), atol=1e-6)", "np.eye(3,3), atol=1e-2)", note="1e-3 perturbations pass")
mut("c20_det_check_dropped", ["C20"], "mutant", "xfab/checks.py",
    "    if not np.allclose( np.linalg.det(U), 1.0 ):", "    if False:", note="improper rotations accepted")
mut("c20_ubi_check_abs", ["C20"], "mutant", "xfab/checks.py",
    "    if np.dot(ubi[2,:], np.cross(ubi[0,:],ubi[1,:]))<0:",
    "    if abs(np.dot(ubi[2,:], np.cross(ubi[0,:],ubi[1,:])))<0:", note="left-handed UBI accepted")
mut("c20_tmp_disable_no_restore_on_error", ["C20"], "mutant", "xfab/tools.py",
    "    U = n.asarray( U_matrix, float)\n    if CHECKS.activated: checks._check_rotation_matrix(U)\n\n    b_mat = form_b_mat(unit_cell)",
    "    U = n.asarray( U_matrix, float)\n    _old = CHECKS.activated\n    if _old: checks._check_rotation_matrix(U)\n    CHECKS.activated = False\n    b_mat = form_b_mat(unit_cell)\n    CHECKS.activated = _old",
    note="save/restore of the switch around nested work: loses a concurrent assignment (pre-emption only)")
mut("c20_normalise_when_on", ["C20"], "mutant", "xfab/laue.py",
    "    U = np.asarray( U_matrix, float)\n    if CHECKS.activated: checks._check_rotation_matrix(U)\n",
    "    U = np.asarray( U_matrix, float)\n    if CHECKS.activated:\n        checks._check_rotation_matrix(U)\n        U = U / np.cbrt(np.linalg.det(U))\n",
    note="valid input returns different values depending on the switch")
mut("c20_getter_ignores_flag_after_error", ["C20"], "mutant", "xfab/checks.py",
    "        return self._run_checks and __debug__", "        return bool(self._run_checks) and __debug__",
    note="alone harmless; with store-before-validate hides garbage", )
M[-1]["edits"].append(("xfab/checks.py",
                       "        if value is not True and value is not False:\n            raise ValueError(\"Please supply a boolean True or False\")\n        else:\n            self._run_checks = value",
                       "        self._run_checks = value\n        if value is not True and value is not False:\n            raise ValueError(\"Please supply a boolean True or False\")", 1))
mut("c20_control_tolerance_1e-5", ["C20"], "control", "xfab/checks.py",
    "np.eye(3,3), atol=1e-6)", "np.eye(3,3), atol=1e-5)", note="different but adequate tolerance")
mut("c20_control_setter_isinstance", ["C20"], "control", "xfab/checks.py",
    "        if value is not True and value is not False:", "        if not isinstance(value, bool):")
mut("c20_control_lookup_via_package", ["C20"], "control", "xfab/symmetry.py",
    "    if CHECKS.activated:\n        checks._check_rotation_matrix(umat_1)",
    "    import xfab as _x\n    if _x.CHECKS.activated:\n        checks._check_rotation_matrix(umat_1)")

# ------------------------------------------------------------------ C19
SAVE_OLD = ("        f=open(filename,\"w\")\n        keys=list(self.parameters.keys())\n        keys.sort()\n        for key in keys:\n"
            "            f.write(\"%s %s\\n\"%(key,str(self.parameters[key])))\n        f.close()\n")
mut("c19_save_swallow_oserror", ["C19"], "mutant", "xfab/parameters.py", SAVE_OLD,
    "        try:\n            f=open(filename,\"w\")\n            keys=list(self.parameters.keys())\n            keys.sort()\n            for key in keys:\n"
    "                f.write(\"%s %s\\n\"%(key,str(self.parameters[key])))\n            f.close()\n        except (IOError, OSError) as e:\n            logger.error(\"could not write %s\"%(filename))\n",
    note="acknowledges a save that failed (ENOSPC/EIO)")
mut("c19_save_no_close", ["C19"], "mutant", "xfab/parameters.py",
    "            f.write(\"%s %s\\n\"%(key,str(self.parameters[key])))\n        f.close()\n",
    "            f.write(\"%s %s\\n\"%(key,str(self.parameters[key])))\n",
    note="flush happens in the destructor, which swallows ENOSPC")
mut("c19_save_repr_float_format", ["C19"], "mutant", "xfab/parameters.py",
    "            f.write(\"%s %s\\n\"%(key,str(self.parameters[key])))",
    "            v = self.parameters[key]\n            f.write(\"%s %s\\n\"%(key, (\"%.12g\"%v) if isinstance(v, float) else str(v)))",
    note="floats lose bits")
mut("c19_load_hyphen_dropped", ["C19"], "mutant", "xfab/parameters.py",
    "                name=name.replace(\"-\",\"_\")\n", "")
mut("c19_load_always_float", ["C19"], "mutant", "xfab/parameters.py",
    "                if is_int:\n                    # use int\n                    self.parameters[name] = vi",
    "                if is_int and False:\n                    # use int\n                    self.parameters[name] = vi")
mut("c19_setvals_zip_variable_list", ["C19"], "mutant", "xfab/parameters.py",
    "        for name, value in zip(self.varylist,values):", "        for name, value in zip(self.variable_list,values):")
mut("c19_getvals_sorted", ["C19"], "mutant", "xfab/parameters.py",
    "        return [self.parameters[name] for name in self.varylist]",
    "        return [self.parameters[name] for name in sorted(self.varylist)]")
mut("c19_addpar_keeps_old_value", ["C19"], "mutant", "xfab/parameters.py",
    "        self.parameters[par.name] = par.value\n", "        self.parameters.setdefault(par.name, par.value)\n")
mut("c19_update_swapped", ["C19"], "mutant", "xfab/parameters.py",
    "                logger.debug(\"setting: pars[%s] from %s to %s\"%(k,v,var))\n                self.parameters[k]=var",
    "                logger.debug(\"setting: pars[%s] from %s to %s\"%(k,v,var))\n                setattr(other,k,v)")
mut("c19_load_strip_digits", ["C19"], "mutant", "xfab/parameters.py",
    "                [name, value] = line.split(\" \") \n", "                [name, value] = line.split(\" \") \n                value = value.lstrip('+0') or value\n",
    note="'007' and '0' handled differently; '+5'")
mut("c19_save_write_big_chunk_ignore_short", ["C19"], "mutant", "xfab/parameters.py", SAVE_OLD,
    "        import io as _io\n        f=open(filename,\"wb\", 0)\n        keys=list(self.parameters.keys())\n        keys.sort()\n"
    "        f.write((\"\".join(\"%s %s\\n\"%(key,str(self.parameters[key])) for key in keys)).encode())\n        f.close()\n",
    note="unbuffered raw write whose short count is ignored")
mut("c19_control_with_open", ["C19"], "control", "xfab/parameters.py", SAVE_OLD,
    "        with open(filename,\"w\") as f:\n            for key in sorted(self.parameters.keys()):\n                f.write(\"%s %s\\n\"%(key,str(self.parameters[key])))\n")
mut("c19_control_unsorted_save", ["C19"], "control", "xfab/parameters.py", "        keys.sort()\n", "")
mut("c19_control_load_iter_split", ["C19"], "control", "xfab/parameters.py",
    "        lines = open(filename,\"r\").readlines()\n        for line in lines:\n            try:\n                [name, value] = line.split(\" \") \n",
    "        with open(filename,\"r\") as fh:\n            lines = [l for l in fh]\n        for line in lines:\n            try:\n                [name, value] = line.split()\n")
mut("c19_control_io_open", ["C19"], "control", "xfab/parameters.py",
    "        f=open(filename,\"w\")\n", "        import io\n        f=io.open(filename,\"w\")\n")

# ------------------------------------------------------------------ C05 / C06
UNIQ_T = "        (dummy, rows) = n.unique((a*n.random.rand(3)).sum(axis=1),\n                                   return_index=True)\n"
UNIQ_L = UNIQ_T.replace("n.", "np.")
mut("hkl_syscond_slot_pnma", ["C05", "C06"], "mutant", "xfab/sglib.py",
    "        self.name = \"Pnma\"\n        self.crystal_system = \"orthorhombic\"\n        self.Laue = \"mmm\"\n        self.nsymop = 8\n        self.nuniq = 8\n        self.cell_choice = \"standard\"\n        self.syscond = [0, 0, 0, 0, 0, 0, 0, 0, 0, 0, 0, 0,\n                        2, 0, 0, 0, 2,",
    "        self.name = \"Pnma\"\n        self.crystal_system = \"orthorhombic\"\n        self.Laue = \"mmm\"\n        self.nsymop = 8\n        self.nuniq = 8\n        self.cell_choice = \"standard\"\n        self.syscond = [0, 0, 0, 0, 0, 0, 0, 0, 0, 0, 0, 0,\n                        2, 0, 0, 0, 0,",
    note="hk0: h=2n dropped for one group only")
mut("hkl_segment_4m_tools", ["C05", "C06"], "mutant", "xfab/tools.py",
    "                        [[ 1, 2,  0], [ 1, 1, 0], [ 0, 1, 0], [ 0, 0,  1]]])\n\n    # Hexagonal",
    "                        [[ 1, 2,  0], [ 1, 1, 0], [ 1, 1, 0], [ 0, 0,  1]]])\n\n    # Hexagonal",
    note="second segment of Laue 4/m, tools only")
mut("hkl_scale_removed_laue", ["C05", "C06"], "mutant", "xfab/laue.py",
    "        sintl_scale = 1.1", "        sintl_scale = 1.0",
    note="loses reflections the baseline traversal reaches in -3 rhombohedral")
mut("hkl_inversion_dropped", ["C05", "C06"], "mutant", "xfab/tools.py",
    "    Rots = n.concatenate((spg.rot[:spg.nuniq],-spg.rot[:spg.nuniq]))", "    Rots = spg.rot[:spg.nuniq]",
    note="Friedel mates missing for non-centrosymmetric groups")
mut("hkl_ops_scalar_weight", ["C05", "C06"], "mutant", "xfab/laue.py",
    "(Rots*np.random.rand(3,3)).sum(axis=2).sum(axis=1)", "(Rots*np.random.rand(1)).sum(axis=2).sum(axis=1)",
    note="operators with equal entry sums collide")
mut("hkl_weights_rounded", ["C05", "C06"], "mutant", "xfab/tools.py", UNIQ_T,
    "        (dummy, rows) = n.unique((a*n.random.rand(3).round(1)).sum(axis=1),\n                                   return_index=True)\n",
    note="stream-dependent collisions of distinct hkl")
mut("hkl_projection_rounded", ["C05", "C06"], "mutant", "xfab/laue.py", UNIQ_L,
    "        (dummy, rows) = np.unique(((a*np.random.rand(3)).sum(axis=1)).round(3),\n                                   return_index=True)\n",
    note="collisions only for some streams")
mut("hkl_int_weights", ["C05", "C06"], "mutant", "xfab/tools.py", UNIQ_T,
    "        (dummy, rows) = n.unique((a*n.random.randint(1,50,3)).sum(axis=1),\n                                   return_index=True)\n")
mut("hkl_sort_wrong_column", ["C06"], "mutant", "xfab/tools.py",
    "    H =  H[n.argsort(H, 0)[:, 3], :] # sort hkl's according to stl\n    if output_stl == None:\n        H = H[: , :3]\n    return H\n\n\n\ndef genhkl(",
    "    H =  H[n.argsort(H, 0)[:, 2], :] # sort hkl's according to stl\n    if output_stl == None:\n        H = H[: , :3]\n    return H\n\n\n\ndef genhkl(")
mut("hkl_all_four_columns", ["C06"], "mutant", "xfab/laue.py",
    "    if output_stl == False:\n        return Hall[:,:3]\n    else:\n        return Hall",
    "    if output_stl is None:\n        return Hall[:,:3]\n    else:\n        return Hall")
mut("hkl_unique_ignores_sintlmin", ["C05", "C06"], "mutant", "xfab/laue.py",
    "                            if  sintlH > sintlmin and sintlH <= sintlmax:\n                                H = np.concatenate((H, [HLAST]))\n                                stl = np.concatenate((stl, [sintlH]))\n                        else: \n                            nref = nref - 1\n                    HNEW = HLAST + segm[segn, 1, :]\n                    sintlH = sintl(unit_cell, HNEW)\n                    #if (sintlH >= sintlmin) and (sintlH <= sintlmax):\n                    if sintlH <= sintlmax*sintl_scale:",
    "                            if  sintlH > 0 and sintlH <= sintlmax:\n                                H = np.concatenate((H, [HLAST]))\n                                stl = np.concatenate((stl, [sintlH]))\n                        else: \n                            nref = nref - 1\n                    HNEW = HLAST + segm[segn, 1, :]\n                    sintlH = sintl(unit_cell, HNEW)\n                    #if (sintlH >= sintlmin) and (sintlH <= sintlmax):\n                    if sintlH <= sintlmax*sintl_scale:")
mut("hkl_name_r_suffix_ignored", ["C05"], "mutant", "xfab/sg.py",
    "                cell_choice = \"rhombohedral\"", "                cell_choice = cell_choice",
    note="'R-3r' silently gives the hexagonal setting")
mut("hkl_name_alias_wrong", ["C05"], "mutant", "xfab/sg.py",
    "         \"p21/c\" : \"Sg14\",", "         \"p21/c\" : \"Sg13\",", note="by-name differs from by-number")
mut("hkl_stl_column_rounded", ["C06"], "mutant", "xfab/tools.py",
    "                                stl = n.concatenate((stl, [sintlH]))\n                        else: \n                            nref = nref - 1\n                    HNEW = HLAST + segm[segn, 1, :]\n                    sintlH = sintl(unit_cell, HNEW)\n                    #if (sintlH >= sintlmin) and (sintlH <= sintlmax):\n                    if sintlH <= sintlmax*sintl_scale:",
    "                                stl = n.concatenate((stl, [round(sintlH, 5)]))\n                        else: \n                            nref = nref - 1\n                    HNEW = HLAST + segm[segn, 1, :]\n                    sintlH = sintl(unit_cell, HNEW)\n                    #if (sintlH >= sintlmin) and (sintlH <= sintlmax):\n                    if sintlH <= sintlmax*sintl_scale:",
    note="fourth column (and order of near-degenerate rows) off")
mut("hkl_hex_perm_dropped", ["C05", "C06"], "mutant", "xfab/laue.py",
    "    elif crystal_system == 'trigonal' or crystal_system == 'hexagonal':", "    elif crystal_system == 'hexagonal':",
    note="trigonal groups lose their index permutations")
mut("hkl_control_exact_unique", ["C05", "C06"], "control", "xfab/tools.py", UNIQ_T,
    "        (dummy, rows) = n.unique(a, axis=0, return_index=True)\n",
    note="exact de-duplication, no draws, different row order inside a family")
mut("hkl_control_unique_other_member", ["C05", "C06"], "control", "xfab/laue.py",
    "    if output_stl == False:\n        return H[:,:3]\n    else:\n        return H\n    \n\ndef genhkl_base(",
    "    H = H.copy()\n    H[:, :3] = -H[:, :3]\n    if output_stl == False:\n        return H[:,:3]\n    else:\n        return H\n    \n\ndef genhkl_base(",
    note="another member (-h) of each family")
mut("hkl_control_default_rng", ["C05", "C06"], "control", "xfab/tools.py", UNIQ_T,
    "        (dummy, rows) = n.unique((a*n.random.random_sample(3)).sum(axis=1),\n                                   return_index=True)\n",
    note="different draw function on the same global stream")

# ------------------------------------------------------------------ controls with locks (cooperative-lock seam)
mut2("c20_control_lock_in_checks", ["C20"], "control", [
    ("xfab/checks.py", "import numpy as np\n", "import numpy as np\nimport threading\n_check_lock = threading.Lock()\n", 1),
    ("xfab/checks.py", "    if not np.allclose( np.dot(U.T, U), np.eye(3,3), atol=1e-6):\n        raise ValueError(\"orientation matrix U is not unitary, np.dot(U.T, U)!=np.eye(3,3)\")\n",
     "    with _check_lock:\n        ok = np.allclose( np.dot(U.T, U), np.eye(3,3), atol=1e-6)\n    if not ok:\n        raise ValueError(\"orientation matrix U is not unitary, np.dot(U.T, U)!=np.eye(3,3)\")\n", 1),
], note="non-reentrant lock around the orthonormality test: thread-safe code that a simulator parking the lock holder would deadlock")
mut2("hkl_control_lock_around_generation", ["C05", "C06"], "control", [
    ("xfab/tools.py", "import warnings\n", "import warnings\nimport threading\n_gen_lock = threading.Lock()\n", 1),
    ("xfab/tools.py", "    H = genhkl_base(unit_cell, \n                      spg.syscond, \n                      sintlmin, sintlmax, \n                      crystal_system=spg.crystal_system, \n                      Laue_class = spg.Laue,\n                      cell_choice = spg.cell_choice,\n                      output_stl=True)\n\n    Hall = n.zeros((0,4))",
     "    with _gen_lock:\n        H = genhkl_base(unit_cell, \n                      spg.syscond, \n                      sintlmin, sintlmax, \n                      crystal_system=spg.crystal_system, \n                      Laue_class = spg.Laue,\n                      cell_choice = spg.cell_choice,\n                      output_stl=True)\n\n    Hall = n.zeros((0,4))", 1),
], note="genhkl_all serialises the traversal with a module-level lock")

mut2("c20_control_semaphore_in_checks", ["C20"], "control", [
    ("xfab/checks.py", "import numpy as np\n", "import numpy as np\nimport threading\n_check_sem = threading.BoundedSemaphore(1)\n", 1),
    ("xfab/checks.py", "    if not np.allclose( np.dot(U.T, U), np.eye(3,3), atol=1e-6):\n        raise ValueError(\"orientation matrix U is not unitary, np.dot(U.T, U)!=np.eye(3,3)\")\n",
     "    with _check_sem:\n        ok = np.allclose( np.dot(U.T, U), np.eye(3,3), atol=1e-6)\n    if not ok:\n        raise ValueError(\"orientation matrix U is not unitary, np.dot(U.T, U)!=np.eye(3,3)\")\n", 1),
], note="a semaphore (built on threading.Condition) around the orthonormality test: needs the cooperative Condition of xsim.sched")
mut2("hkl_control_semaphore_around_generation", ["C05", "C06"], "control", [
    ("xfab/tools.py", "import warnings\n", "import warnings\nimport threading\n_gen_sem = threading.Semaphore(1)\n", 1),
    ("xfab/tools.py", "    H = genhkl_base(unit_cell, \n                      spg.syscond, \n                      sintlmin, sintlmax, \n                      crystal_system=spg.crystal_system, \n                      Laue_class = spg.Laue,\n                      cell_choice = spg.cell_choice,\n                      output_stl=True)\n\n    Hall = n.zeros((0,4))",
     "    with _gen_sem:\n        H = genhkl_base(unit_cell, \n                      spg.syscond, \n                      sintlmin, sintlmax, \n                      crystal_system=spg.crystal_system, \n                      Laue_class = spg.Laue,\n                      cell_choice = spg.cell_choice,\n                      output_stl=True)\n\n    Hall = n.zeros((0,4))", 1),
], note="genhkl_all serialises the traversal with a module-level semaphore")

mut("c20_control_deprecation_warning", ["C20", "C05"], "control", "xfab/tools.py",
    "    U = n.asarray( U_matrix, float)\n    if CHECKS.activated: checks._check_rotation_matrix(U)\n\n    b_mat = form_b_mat(unit_cell)",
    "    warnings.warn('the 2*pi convention of xfab.tools is deprecated, use xfab.laue', DeprecationWarning, stacklevel=2)\n    U = n.asarray( U_matrix, float)\n    if CHECKS.activated: checks._check_rotation_matrix(U)\n\n    b_mat = form_b_mat(unit_cell)",
    note="a maintainer starts deprecating xfab.tools (the commented-out _two_pi_deprecated in the source): a DeprecationWarning is not a rejection of a valid input, also when the client treats run-time warnings as errors")

if __name__ == "__main__":
    subprocess.check_call("rm -rf %s && mkdir -p %s" % (OUT, OUT), shell=True)
    index = []
    for m in M:
        files = {}
        for (f, old, new, cnt) in m["edits"]:
            src = files.get(f)
            if src is None:
                src = subprocess.check_output(["git", "-C", REPO, "show", "HEAD:" + f]).decode()
                files[f] = src
                files[f + "@orig"] = src
            if src.count(old) != cnt:
                sys.exit("mutant %s: pattern occurs %d times in %s (expected %d)" % (m["name"], src.count(old), f, cnt))
            files[f] = src.replace(old, new)
        patch = ""
        import tempfile
        for f in sorted(k for k in files if not k.endswith("@orig")):
            with tempfile.TemporaryDirectory() as td:
                a = os.path.join(td, "a"); b = os.path.join(td, "b")
                open(a, "w").write(files[f + "@orig"]); open(b, "w").write(files[f])
                r = subprocess.run(["diff", "-u", "--label", "a/" + f, "--label", "b/" + f, a, b], stdout=subprocess.PIPE)
                patch += r.stdout.decode()
        p = os.path.join(OUT, m["name"] + ".patch")
        open(p, "w").write(patch)
        index.append({"name": m["name"], "properties": m["props"], "kind": m["kind"], "note": m["note"],
                      "patch": "mutants/%s.patch" % m["name"]})
    json.dump(index, open(os.path.join(OUT, "index.json"), "w"), indent=1)
    print("wrote %d patches" % len(index))
