#!/venv/bin/python
"""Ingest / re-run the independently written seeded defects under /verif/seeded/<id>/.

  tools_seeded.py ingest <tag> <prop> <worktree> "<needs>"   confirm (tests pass, demo fails with / passes without),
                                                             store patch.diff + demo + meta.json
  tools_seeded.py run [<id> ...] [--tier quick]              apply each patch to /repo, run the property's check,
                                                             undo, tabulate
Confirmation uses a scratch worktree under /tmp that is removed afterwards; /repo is only touched by `run`
(git apply ... ; check ; git checkout -- .).
"""
import json
import os
import shutil
import subprocess
import sys
import time
import tempfile

IN_REPO = False

V = "/verif"
PY = "/venv/bin/python"


def sh(cmd, cwd=None, env=None, timeout=1800):
    e = dict(os.environ)
    if env:
        e.update(env)
    p = subprocess.run(cmd, shell=True, cwd=cwd, env=e, stdout=subprocess.PIPE, stderr=subprocess.STDOUT, timeout=timeout)
    return p.returncode, p.stdout.decode(errors="replace")


def ingest(tag, prop, wt, needs):
    sid = "%s-%s" % (prop, tag)
    d = os.path.join(V, "seeded", sid)
    os.makedirs(d, exist_ok=True)
    patch = os.path.join(wt, "patch_%s.diff" % tag)
    demo = os.path.join(wt, "demo_%s.py" % tag)
    shutil.copy(patch, os.path.join(d, "patch.diff"))
    shutil.copy(demo, os.path.join(d, "demo.py"))
    scratch = "/tmp/confirm-%s" % tag
    sh("git -C /repo worktree remove --force %s" % scratch)
    rc, out = sh("git -C /repo worktree add -q --detach %s HEAD" % scratch)
    assert rc == 0, out
    meta = {"id": sid, "property": prop, "needs_to_manifest": needs, "source": "independent sub-agent given only the property text and a scratch worktree",
            "repo_head": sh("git -C /repo rev-parse --short HEAD")[1].strip()}
    try:
        env = {"PYTHONPATH": scratch, "PYTHONDONTWRITEBYTECODE": "1", "PYTHONWARNINGS": "ignore"}
        shutil.copy(os.path.join(d, "demo.py"), os.path.join(scratch, "demo.py"))
        rc0, out0 = sh("%s demo.py" % PY, cwd=scratch, env=env)
        rc, out = sh("git apply %s" % os.path.join(d, "patch.diff"), cwd=scratch)
        meta["patch_applies_to_head"] = (rc == 0)
        if rc != 0:
            print("PATCH DOES NOT APPLY:", out)
        rct, outt = sh("%s -m pytest -q -p no:cacheprovider test" % PY, cwd=scratch, env=env)
        rc1, out1 = sh("%s demo.py" % PY, cwd=scratch, env=env)
        meta["confirmed"] = {"tests_with_patch": outt.strip().splitlines()[-1] if outt.strip() else "", "tests_rc": rct,
                             "demo_without_patch_rc": rc0, "demo_with_patch_rc": rc1,
                             "demo_with_patch_tail": out1.strip().splitlines()[-6:],
                             "commands": ["git apply patch.diff (scratch worktree of /repo HEAD)",
                                          "PYTHONPATH=<wt> /venv/bin/python -m pytest -q -p no:cacheprovider test",
                                          "PYTHONPATH=<wt> /venv/bin/python demo.py (with and without the patch)"]}
        ok = rct == 0 and rc0 == 0 and rc1 == 1 and meta["patch_applies_to_head"]
        meta["kept"] = bool(ok)
        print("%s: tests rc=%d (%s) demo without=%d with=%d -> %s" % (sid, rct, meta["confirmed"]["tests_with_patch"], rc0, rc1,
                                                                     "KEPT" if ok else "REJECTED"))
    finally:
        sh("git -C /repo worktree remove --force %s" % scratch)
    json.dump(meta, open(os.path.join(d, "meta.json"), "w"), indent=1)
    return meta


def ingest_control(tag, prop, patchfile, what):
    """a property-preserving change written by an independent sub-agent: the check must stay silent on it"""
    sid = "%s-%s" % (prop, tag)
    d = os.path.join(V, "seeded", sid)
    os.makedirs(d, exist_ok=True)
    shutil.copy(patchfile, os.path.join(d, "patch.diff"))
    scratch = "/tmp/confirm-%s" % tag
    sh("git -C /repo worktree remove --force %s" % scratch)
    rc, out = sh("git -C /repo worktree add -q --detach %s HEAD" % scratch)
    assert rc == 0, out
    meta = {"id": sid, "property": prop, "kind": "control", "what": what,
            "source": "independent sub-agent asked for behaviour-preserving refactorings",
            "repo_head": sh("git -C /repo rev-parse --short HEAD")[1].strip()}
    try:
        env = {"PYTHONPATH": scratch, "PYTHONDONTWRITEBYTECODE": "1", "PYTHONWARNINGS": "ignore"}
        rc, out = sh("git apply %s" % os.path.join(d, "patch.diff"), cwd=scratch)
        meta["patch_applies_to_head"] = (rc == 0)
        rct, outt = sh("%s -m pytest -q -p no:cacheprovider test" % PY, cwd=scratch, env=env)
        meta["confirmed"] = {"tests_with_patch": outt.strip().splitlines()[-1] if outt.strip() else "", "tests_rc": rct}
        meta["kept"] = bool(rc == 0 and rct == 0)
        print("%s: applies=%s tests rc=%d (%s) -> %s" % (sid, rc == 0, rct, meta["confirmed"]["tests_with_patch"],
                                                      "KEPT" if meta["kept"] else "REJECTED"))
    finally:
        sh("git -C /repo worktree remove --force %s" % scratch)
    json.dump(meta, open(os.path.join(d, "meta.json"), "w"), indent=1)


def run(ids, tier="quick", extra=""):
    base = os.path.join(V, "seeded")
    rows = []
    for sid in sorted(os.listdir(base)):
        d = os.path.join(base, sid)
        mp = os.path.join(d, "meta.json")
        if not os.path.exists(mp) or (ids and sid not in ids):
            continue
        meta = json.load(open(mp))
        if not meta.get("kept"):
            continue
        t0 = time.time()
        if IN_REPO:
            # the way the brief describes it: apply to /repo, run, undo straight afterwards
            rc, out = sh("git -C /repo status --porcelain --untracked-files=no")
            if out.strip():
                sys.exit("refusing: /repo has uncommitted changes:\n" + out)
            rc, out = sh("git -C /repo apply %s" % os.path.join(d, "patch.diff"))
            if rc != 0:
                print("%-28s PATCH DOES NOT APPLY" % sid)
                continue
            try:
                rc, out = sh("./check %s --tier %s --no-evidence %s" % (meta["property"], tier, extra), cwd=V,
                             env={"XSIM_REPLAY_DIR": "/tmp/seeded-replays"})
            finally:
                sh("git -C /repo checkout -- .")
        else:
            # default: a scratch copy of /repo's working tree selected through XFAB_SRC (leaves /repo untouched,
            # so background soaks that use /repo are not disturbed); removed afterwards
            scratch = tempfile.mkdtemp(prefix="xsim-seeded-")
            try:
                shutil.copytree("/repo/xfab", os.path.join(scratch, "xfab"), ignore=shutil.ignore_patterns("__pycache__"))
                rc, out = sh("patch -p1 -s -d %s -i %s" % (scratch, os.path.join(d, "patch.diff")))
                if rc != 0:
                    print("%-28s PATCH DOES NOT APPLY: %s" % (sid, out[:200]))
                    continue
                rc, out = sh("./check %s --tier %s --no-evidence %s" % (meta["property"], tier, extra), cwd=V,
                             env={"XSIM_REPLAY_DIR": os.path.join(scratch, "replays"), "XFAB_SRC": scratch})
            finally:
                shutil.rmtree(scratch, ignore_errors=True)
        first = [l for l in out.splitlines() if l.startswith("violation") or l.startswith("HARNESS")][:1]
        meta.setdefault("detection", {})[tier] = {"check": "./check %s --tier %s" % (meta["property"], tier), "rc": rc,
                                                  "verif_seed": os.environ.get("VERIF_SEED", "default (20261001)"),
                                                  "detected": rc == 1, "first_violation": (first[0][:400] if first else ""),
                                                  "wall_s": round(time.time() - t0, 1)}
        json.dump(meta, open(mp, "w"), indent=1)
        ctl = meta.get("kind") == "control"
        rows.append((sid, rc, ctl))
        if ctl:
            meta["detection"][tier]["silent"] = (rc == 0)
            json.dump(meta, open(mp, "w"), indent=1)
            print("%-28s rc=%d %s %.0fs %s" % (sid, rc, "SILENT (ok)" if rc == 0 else "FALSE-ALARM" if rc == 1 else "HARNESS",
                                               time.time() - t0, first[0][:300] if first else ""))
        else:
            print("%-28s rc=%d %s %.0fs %s" % (sid, rc, "DETECTED" if rc == 1 else "MISSED" if rc == 0 else "HARNESS",
                                               time.time() - t0, first[0][:220] if first else ""))
        sys.stdout.flush()
    shutil.rmtree("/tmp/seeded-replays", ignore_errors=True)
    print("detected %d / %d ; controls silent %d / %d" % (
        sum(1 for r in rows if r[1] == 1 and not r[2]), sum(1 for r in rows if not r[2]),
        sum(1 for r in rows if r[1] == 0 and r[2]), sum(1 for r in rows if r[2])))


if __name__ == "__main__":
    if sys.argv[1] == "ingest":
        ingest(*sys.argv[2:6])
    elif sys.argv[1] == "ingest-control":
        ingest_control(*sys.argv[2:6])
    elif sys.argv[1] == "run":
        args = sys.argv[2:]
        tier = "quick"
        extra = ""
        ids = []
        for a in args:
            if a == "--in-repo":
                IN_REPO = True
                continue
            if a.startswith("--tier="):
                tier = a.split("=")[1]
            elif a.startswith("--extra="):
                extra = a.split("=", 1)[1]
            else:
                ids.append(a)
        run(ids, tier, extra)
