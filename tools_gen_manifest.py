#!/venv/bin/python
"""Writes MANIFEST.json (single source of truth for the interface file)."""
import json, sys
PIN = ("cd /repo && /venv/bin/python -m pytest -ra -q -p no:cacheprovider --timeout=900 "
       "--continue-on-collection-errors")
NA = {
 "C01": "pure function of (cell, hkl): algebraic identities over a continuum; no schedule, clock, I/O, shared state or history for a simulator to own",
 "C02": "pure function of (U, cell, UB); the only state it reads is the global check switch, whose behaviour is decided under C20",
 "C03": "pure function of angles/matrix; the gimbal-lock band is a region of input space, not a schedule or fault",
 "C04": "static space-group tables: a finite enumeration (model checking / exhaustive check), not a simulation target",
 "C07": "pure function of (hkl, cell, group, atom list); nothing nondeterministic or stateful to simulate",
 "C08": "pure function; StructureFactor's write to atoms[i].adp does not influence the returned value, so there is no history effect",
 "C09": "pure function of (g-vector, 2theta, tilts)",
 "C10": "pure function of detector geometry arguments",
 "C11": "pure bijection on a finite configuration space (81 flip matrices x small shapes): enumeration, not simulation",
 "C12": "static rotation tables plus a pure function; the module cache ROTATIONS is written once at import and only read afterwards",
 "C13": "pure function (check-switch read is C20's subject)",
 "C14": "differential over inputs of 41 function pairs with no environment in it; its single RNG-dependent clause (reflection lists) is exercised inside the C05/C06 runs but that does not decide C14",
 "C15": "pure function of (position, group)",
 "C16": "static coefficient table and a closed formula",
 "C17": "xfab reads the file in one shot (readlines / PyCifRW) and parses an in-memory object: no streaming, retry, partial-read or resume logic an I/O schedule could influence; faults that change bytes leave the 'well-formed file' quantifier",
 "C18": "pure function of the cell parameters",
}
def check(pid, text, note, technique, ref):
    return {
        "property_id": pid,
        "quick_cmd": "./check %s --tier quick" % pid,
        "thorough_cmd": "./check %s --tier thorough" % pid,
        "evidence_file": "/verif/evidence/%s.json" % pid,
        "replay_cmd_template": "./check replay {path}",
        "engine": "xsim",
        "level_claimed": {"category": "exploration", "text": text, "design_ref": ref},
        "level_note": note,
        "technique": technique,
    }
CHECKS = [
 check("C05",
  "Seeded search: each run is one simulated client session (own forked process) with 1-3 related workloads (one of the 237 settings, conforming cell incl. axes up to 320 A, margin-respecting shell) and interleaved calls of genhkl_all (tools/laue, by number or by name), each under its own schedule of the process-global numpy RNG stream (seed, prior consumption, steals between draws, hostile reseed before a draw, stream left by the previous call); the returned rows are compared as a set with a brute-force reference (all hkl in the bounding box, extinction from the group's own (R,t) operators), across schedules and call histories, by-name vs by-number and hexagonal vs rhombohedral setting. Run indices 0-765 enumerate all settings x modules and all ordered pairs of settings sharing a condition vector on different axes. A call may be pre-empted at a traced line by the second party's own genhkl call on a real second thread (baton passing, cooperative locks); the client may overwrite returned arrays; logging configuration, calling convention and cell container vary per run; C05 adds 8 000 (quick) / 400 000 (thorough) stream-state sweep sessions. One recorded finding (KF-traversal) is attributed through a frozen baseline-traversal model and pinned witnesses. A clean batch is sampling evidence, not proof.",
  "Trusted: the brute-force oracle (xsim/oracle_hkl.py), numpy's MT19937, the frozen baseline-reachability model used only to attribute the recorded traversal finding. Crafted MT19937 keys are out of scope (not a seed).",
  "deterministic simulation: seeded RNG-stream schedules with contention faults + brute-force reference model", "3.1"),
 check("C06",
  "Same simulated sessions as C05: genhkl_unique / genhkl_all under every RNG schedule of the run are checked against the Laue orbits of the brute-force set (one row per family, nothing else, union clause, non-decreasing sin(theta)/lambda, 4th column, integrality, exactly 3 or 4 columns).",
  "Trusted: brute-force oracle and orbit computation from the group's own rot[:nuniq]; shell bounds stay 1e-9 away from lattice values so inclusive/exclusive cannot be separated.",
  "deterministic simulation: seeded RNG-stream schedules with contention faults + Laue-orbit reference model", "3.2"),
 check("C19",
  "Seeded operation-and-fault histories (<=30 API calls on 1-3 parameters objects, 1-3 files, reused caller-side dicts, read-backs scheduled per step) run against a dictionary reference model; saveparameters/loadparameters run on the real CPython TextIOWrapper/Buffered* stack over a simulated raw disk (inode semantics) that injects ENOSPC, EIO, short writes, EINTR, failing close, short reads, ENOENT/EACCES, a competing writer between operations or in the middle of a read, and process death in the middle of a save; the simulated file system also answers os.path.exists/stat/remove/rename/replace/chmod, os.open/read/write/fdopen on its descriptors, io.FileIO and '+' modes, so atomic-save or descriptor-level refactorings stay on it; acknowledged save => typed round trip, a load delivers one whole file, a crash never damages another acknowledged file. Violations are shrunk to a minimal replayable op+fault trace.",
  "Trusted: the dict model (xsim/c19.py), CPython io. Ints up to 2**1401, NaN-free floats, values up to 70 000 characters; no power-loss durability is asserted (the code never fsyncs and the property does not promise it).",
  "deterministic simulation: seeded API histories with simulated-disk I/O fault injection vs dictionary model", "3.3"),
 check("C20",
  "Seeded histories (<=60 ops) of valid/invalid assignments to the process-global switch interleaved with guarded calls (9 functions in tools+laue plus symmetry.Umis; valid, clearly-invalid and malformed inputs in several containers, held by the client as objects that it may overwrite in place) against a one-boolean reference model; per-call outcome oracle; read-backs of the switch scheduled per step; two real client threads under a baton (each operation names its thread; locks of the code under test are cooperative); calls pre-empted at an arbitrary traced line by the other thread, which assigns the switch or makes a guarded call of its own (outcome must be linearizable, switch must end at the last valid assignment).",
  "Trusted: the boolean model and input classification (xsim/c20.py). Normal interpreter only (python -O disables checks by documented design).",
  "deterministic simulation: seeded histories on shared global state with pre-emption injection (sys.settrace) vs boolean model", "3.4"),
]
claimed = set(sys.argv[1:])  # ids whose engine exists
m = {
 "version": 1,
 "setup_cmd": "./setup.sh",
 "hooks": {"guard": "XFAB_VERIF", "enable": "no source hooks are needed: every seam (numpy.random.rand, the module-global open of xfab.parameters, xfab.CHECKS.activated, sys.settrace) is reached by attribute injection from /verif; the guard variable is unused",
           "baseline_off_cmd": PIN, "source_commits": [], "add_only": True},
 "engines": [{"name": "xsim", "path": "/verif/xsim", "serves_properties": ["C05", "C06", "C19", "C20"],
              "kind_free_text": "hand-written deterministic simulator: one seed -> explicit op+fault trace -> pure executor; 16 forked workers; ddmin shrinker; replay files"}],
 "checks": [c for c in CHECKS if c["property_id"] in claimed],
 "not_applicable": [{"property_id": k, "reason": v} for k, v in sorted(NA.items())]
   + [{"property_id": c["property_id"], "reason": "engine under construction in this commit; will be claimed (see DESIGN.md section 3)"} for c in CHECKS if c["property_id"] not in claimed],
 "notes": "Technique family: deterministic simulation with fault injection. See DESIGN.md. Exit codes of ./check: 0 held, 1 VIOLATION, 2 harness error.",
}
json.dump(m, open("/verif/MANIFEST.json", "w"), indent=1)
print("wrote MANIFEST.json with checks", [c["property_id"] for c in m["checks"]])
