import os, sys
sys.path.insert(0, os.path.dirname(os.path.abspath(__file__)))
from xsim import runner
if __name__ == "__main__":
    sys.exit(runner.main(sys.argv[1:]))
