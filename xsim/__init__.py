"""xsim -- deterministic simulation with fault injection for FABLE-3DXRD/xfab.

One integer (VERIF_SEED) -> per-run seeds -> explicit op+fault traces -> pure executors.
See /verif/DESIGN.md.
"""
ENGINE_VERSION = 1
