"""Common machinery: seeding, PRNG helpers, trace (de)serialisation, digests,
source-tree selection, known findings.

Nothing here reads a clock, os.urandom, id() or iterates an unordered container on a
decision path.  Logging never draws from the PRNG.
"""
import hashlib
import json
import os
import random
import struct
import sys

VERIF_DIR = os.path.dirname(os.path.dirname(os.path.abspath(__file__)))
DEFAULT_SEED = 20261001


# --------------------------------------------------------------------------- source
def xfab_src():
    """Directory that contains the `xfab` package under test (default /repo)."""
    return os.environ.get("XFAB_SRC", "/repo")


def import_xfab():
    """Import xfab from the working tree selected by XFAB_SRC and prove it."""
    src = os.path.realpath(xfab_src())
    if sys.path[0] != src:
        sys.path.insert(0, src)
    # locks the code under test creates must be cooperative (see xsim.sched); module-level locks are created at
    # import, so the seam goes in first
    from . import sched
    sched.install_lock_seam(os.path.join(src, "xfab") + os.sep)
    import xfab  # noqa
    got = os.path.realpath(os.path.dirname(os.path.dirname(xfab.__file__)))
    if got != src:
        raise HarnessError("xfab imported from %s, expected %s" % (got, src))
    # import every module the engines touch NOW: forked children (one per isolated run) then inherit them instead of
    # each compiling the 13 000-line space-group library again (imports only -- no function of xfab is called here)
    import importlib
    for m in ("xfab.checks", "xfab.tools", "xfab.laue", "xfab.symmetry", "xfab.sglib", "xfab.sg", "xfab.parameters"):
        importlib.import_module(m)
    return xfab


class HarnessError(Exception):
    """A failure of the simulator itself (never a verdict about xfab)."""


# --------------------------------------------------------------------------- seeding
def verif_seed():
    v = os.environ.get("VERIF_SEED", "")
    try:
        return int(v)
    except ValueError:
        return DEFAULT_SEED


def derive_seed(prop, seed, index, salt=""):
    h = hashlib.sha256(("%s|%d|%d|%s" % (prop, seed, index, salt)).encode()).digest()
    return int.from_bytes(h[:8], "big")


class Rng(object):
    """PRNG facade that only uses getrandbits (stable across Python versions)."""

    def __init__(self, seed):
        self._r = random.Random(seed)
        self.draws = 0

    def bits(self, k):
        self.draws += 1
        return self._r.getrandbits(k)

    def below(self, n):
        """uniform integer in [0, n)"""
        if n <= 0:
            raise ValueError("below(%r)" % (n,))
        if n == 1:
            return 0
        k = (n - 1).bit_length()
        while True:
            v = self.bits(k)
            if v < n:
                return v

    def between(self, a, b):
        """uniform integer in [a, b] inclusive"""
        return a + self.below(b - a + 1)

    def unit(self):
        return self.bits(53) / float(1 << 53)

    def uniform(self, a, b):
        return a + (b - a) * self.unit()

    def chance(self, p):
        return self.unit() < p

    def choice(self, seq):
        return seq[self.below(len(seq))]

    def weighted(self, pairs):
        """pairs: list of (item, integer weight)"""
        tot = sum(w for _, w in pairs)
        x = self.below(tot)
        for item, w in pairs:
            if x < w:
                return item
            x -= w
        raise AssertionError

    def shuffle(self, lst):
        for i in range(len(lst) - 1, 0, -1):
            j = self.below(i + 1)
            lst[i], lst[j] = lst[j], lst[i]

    def sample(self, seq, k):
        lst = list(seq)
        self.shuffle(lst)
        return lst[:k]

    def loguniform(self, a, b):
        import math
        return math.exp(self.uniform(math.log(a), math.log(b)))


# --------------------------------------------------------------------------- values
def fhex(x):
    return float(x).hex()


def unhex(s):
    return float.fromhex(s)


def enc_array(a):
    """numpy array -> JSON (bit exact)"""
    import numpy as np
    a = np.asarray(a)
    return {"dt": str(a.dtype), "shape": list(a.shape),
            "v": [float(x).hex() for x in a.astype(np.float64).ravel()]}


def dec_array(d):
    import numpy as np
    a = np.array([float.fromhex(x) for x in d["v"]], dtype=np.float64).reshape(d["shape"])
    return a.astype(d["dt"])


def canon(obj):
    return json.dumps(obj, sort_keys=True, separators=(",", ":"), allow_nan=True)


def digest(obj):
    return hashlib.sha256(canon(obj).encode()).hexdigest()


def float_bits(x):
    return struct.unpack("<Q", struct.pack("<d", float(x)))[0]


# --------------------------------------------------------------------------- known findings
_KF = None


def known_findings():
    """Committed file; never written at run time."""
    global _KF
    if _KF is None:
        p = os.path.join(VERIF_DIR, "known_findings.json")
        with open(p) as f:
            _KF = json.load(f)
    return _KF


def findings_for(prop):
    return [f for f in known_findings().get("findings", [])
            if prop in f.get("properties", []) and f.get("status") == "open"]


# --------------------------------------------------------------------------- run isolation
def isolated(fn, *args):
    """Run fn(*args) in a forked child and return its (picklable) result.

    Every simulated run starts from the state of a process that has imported the code under test but never
    called it: module-level caches, memo slots, closures and the global switch left behind by one run can
    therefore never influence another one, and a replay in a fresh interpreter sees exactly what the run saw.
    """
    import pickle
    if os.environ.get("XSIM_NO_FORK"):
        return fn(*args)
    r, w = os.pipe()
    pid = os.fork()
    if pid == 0:
        code = 0
        try:
            os.close(r)
            try:
                out = ("ok", fn(*args))
            except HarnessError as e:
                out = ("harness", str(e))
            except BaseException as e:  # noqa
                import traceback
                out = ("harness", "%s: %s\n%s" % (type(e).__name__, e, traceback.format_exc()[-1500:]))
            with os.fdopen(w, "wb") as f:
                pickle.dump(out, f, protocol=pickle.HIGHEST_PROTOCOL)
        except BaseException:  # noqa
            code = 3
        finally:
            os._exit(code)
    os.close(w)
    chunks = []
    with os.fdopen(r, "rb") as f:
        while True:
            b = f.read(1 << 16)
            if not b:
                break
            chunks.append(b)
    _, status = os.waitpid(pid, 0)
    data = b"".join(chunks)
    if not data:
        raise HarnessError("isolated run died without a result (wait status %d)" % status)
    kind, val = pickle.loads(data)
    if kind == "harness":
        raise HarnessError(val)
    return val


# --------------------------------------------------------------------------- logging configuration of the process
class log_config(object):
    """The logging set-up a client process may legitimately have is part of the environment of a run:
    'quiet'  -> logging.disable(CRITICAL)   (nothing is emitted, isEnabledFor() is False everywhere)
    'default'-> as imported: xfab's module loggers at NOTSET under a WARNING root, records dropped by a NullHandler
    'debug'  -> the documented logging.getLogger('xfab.<module>').setLevel(DEBUG) for every xfab logger
    Handlers of the xfab loggers are replaced by a NullHandler for the duration (they write to stderr)."""

    def __init__(self, mode):
        self.mode = mode or "quiet"

    def __enter__(self):
        import logging
        self.logging = logging
        self.saved = []
        if self.mode == "quiet":
            logging.disable(logging.CRITICAL)
            return self
        names = [n for n in list(logging.root.manager.loggerDict) if n == "xfab" or n.startswith("xfab.")]
        for n in sorted(names):
            lg = logging.getLogger(n)
            self.saved.append((lg, lg.level, list(lg.handlers), lg.propagate))
            lg.handlers = [logging.NullHandler()]
            lg.propagate = False
            lg.setLevel(logging.DEBUG if self.mode == "debug" else logging.NOTSET)
        return self

    def __exit__(self, *a):
        logging = self.logging
        if self.mode == "quiet":
            logging.disable(logging.NOTSET)
            return False
        for lg, level, handlers, prop in self.saved:
            lg.setLevel(level)
            lg.handlers = handlers
            lg.propagate = prop
        return False


# --------------------------------------------------------------------------- simulated clock
class sim_clock(object):
    """time.time / monotonic / perf_counter (and their _ns forms) read a simulated clock for the duration of a run:
    it starts at a fixed instant, advances one microsecond per reading, and can jump (forwards or backwards) at the
    k-th reading -- a suspended VM, an NTP step, a very slow machine.  Code that never reads a clock never notices."""

    NAMES = ("time", "monotonic", "perf_counter", "process_time")

    def __init__(self, spec):
        self.spec = spec or {}
        self.now = 1.7e9
        self.reads = 0
        self.jumped = 0

    def _read(self):
        self.reads += 1
        if self.spec and self.reads == int(self.spec.get("jump_at", 0)):
            self.now += float(self.spec.get("by", 0.0))
            self.jumped += 1
        self.now += 1e-6
        return self.now

    def __enter__(self):
        import time
        import datetime as _dt
        import types
        self.time = time
        self.saved = {}
        clock = self

        class SimDateTime(_dt.datetime):
            """datetime.datetime whose now()/utcnow()/today() read the simulated clock"""
            @classmethod
            def now(cls, tz=None):
                return _dt.datetime.fromtimestamp(clock._read(), tz)

            @classmethod
            def utcnow(cls):
                return _dt.datetime.fromtimestamp(clock._read(), _dt.timezone.utc).replace(tzinfo=None)

            @classmethod
            def today(cls):
                return _dt.datetime.fromtimestamp(clock._read())

        proxy = types.SimpleNamespace(**{k: getattr(_dt, k) for k in dir(_dt) if not k.startswith("__")})
        proxy.datetime = SimDateTime
        # datetime.now() reads the system clock in C; the only seam is the name the code under test bound at import
        self.dt_patched = []
        for mname in sorted(m for m in list(sys.modules) if m == "xfab" or m.startswith("xfab.")):
            mod = sys.modules.get(mname)
            if mod is None:
                continue
            for k, v in list(vars(mod).items()):
                if v is _dt.datetime:
                    self.dt_patched.append((mod, k, v))
                    setattr(mod, k, SimDateTime)
                elif v is _dt:
                    self.dt_patched.append((mod, k, v))
                    setattr(mod, k, proxy)
        for n in self.NAMES:
            if hasattr(time, n):
                self.saved[n] = getattr(time, n)
                setattr(time, n, self._read)
            if hasattr(time, n + "_ns"):
                self.saved[n + "_ns"] = getattr(time, n + "_ns")
                setattr(time, n + "_ns", lambda: int(self._read() * 1e9))
        return self

    def __exit__(self, *a):
        for n, f in self.saved.items():
            setattr(self.time, n, f)
        for mod, k, v in getattr(self, "dt_patched", []):
            setattr(mod, k, v)
        return False


def gen_clock(rng):
    """trace element for sim_clock: mostly no jump"""
    if rng.chance(0.25):
        return {"jump_at": rng.choice([2, 2, 3, 4, 5, 8, 13, 40, 200]),
                "by": rng.choice([61.0, 3600.0, 86400.0, -3600.0, -2.0, -0.5, 1e9])}
    return None


# --------------------------------------------------------------------------- environment at import time
IMPORT_ENVS = [{"PYTHONOPTIMIZE": "0"}, {"LC_ALL": "C", "LANG": "C"}, {"TZ": "UTC+12"}, {"PYTHONDONTWRITEBYTECODE": ""},
               {"OMP_NUM_THREADS": "4"}, {"PYTHONOPTIMIZE": ""}, {"HOME": "/nonexistent"}]


def fresh_import_run(env, fn, *args):
    """Run fn(*args) in a forked child in which the code under test is imported AGAIN under a modified environment
    (what a library reads from os.environ at import time is process configuration like any other)."""
    def child():
        for k, v in env.items():
            os.environ[k] = v
        for m in [m for m in list(sys.modules) if m == "xfab" or m.startswith("xfab.")]:
            del sys.modules[m]
        import_xfab()
        return fn(*args)
    return isolated(child)


# --------------------------------------------------------------------------- warnings filter of the process
class warn_config(object):
    """'ignore' (the simulator's default), 'default' or 'error' (python -W error / pytest filterwarnings=error):
    with 'error' any warning the code under test emits becomes an exception at the point of emission."""

    def __init__(self, mode):
        self.mode = mode or "ignore"

    def __enter__(self):
        import warnings
        self.cm = warnings.catch_warnings()
        self.cm.__enter__()
        warnings.simplefilter({"ignore": "ignore", "default": "default", "error": "error"}[self.mode])
        if self.mode == "error":
            # announcements about the life cycle of an API (a maintainer may well start deprecating xfab.tools) and
            # interpreter housekeeping are not escalated: the configuration modelled is "treat run-time warnings as
            # errors", not "fail on deprecations"
            for cat in (DeprecationWarning, PendingDeprecationWarning, FutureWarning, ImportWarning, ResourceWarning):
                warnings.filterwarnings("ignore", category=cat)
        return self

    def __exit__(self, *a):
        return self.cm.__exit__(*a)


def gen_warn(rng):
    return rng.weighted([("ignore", 6), ("default", 1), ("error", 3)])
