"""C05 / C06 -- reflection generation under schedules of numpy's process-global RNG stream.

System: one client session calling genhkl_all / genhkl_unique (tools and laue, by number and by
name) while a simulated second party shares, advances and reseeds the global legacy RandomState.
Seam: pass-through wrappers on the numpy.random module-level draw functions.
Reference model: xsim.oracle_hkl (brute force) + Laue orbits.
"""
import copy
import math
import os

from . import core
from . import oracle_hkl as O
from .sgnames import SGNAMES, SYSCOND_TWINS

# every session runs in its own forked child: module-level caches / memo slots in the code under test (the natural
# home of history-dependent reflection lists) can then only be filled by the session's own calls
ISOLATE_RUNS = True
R_GROUPS = [146, 148, 155, 160, 161, 166, 167]
SETTINGS = [(n, "standard") for n in range(1, 231)] + [(n, "rhombohedral") for n in R_GROUPS]
DRAW_FUNCS = ["rand", "random", "random_sample", "ranf", "sample", "uniform", "randn", "randint",
              "standard_normal", "normal", "permutation", "shuffle", "choice", "bytes", "random_integers"]


def cell_kind(no, cc):
    if no <= 2:
        return "triclinic"
    if no <= 15:
        return "monoclinic"
    if no <= 74:
        return "orthorhombic"
    if no <= 142:
        return "tetragonal"
    if no <= 194:
        return "rhombohedral" if (cc == "rhombohedral" and no in R_GROUPS) else "hexagonal"
    return "cubic"


# ----------------------------------------------------------------------------- frozen baseline model
# Used ONLY to attribute the recorded traversal finding (known_findings.json: KF-traversal).
# Frozen copy of the pinned tree's segment tables for the four affected Laue classes.
SEGM = {
    "-1": [[[0, 0, 0], [1, 0, 0], [0, 1, 0], [0, 0, 1]],
           [[-1, 0, 1], [-1, 0, 0], [0, 1, 0], [0, 0, 1]],
           [[-1, 1, 0], [-1, 0, 0], [0, 1, 0], [0, 0, -1]],
           [[0, 1, -1], [1, 0, 0], [0, 1, 0], [0, 0, -1]]],
    "2/m": [[[0, 0, 0], [1, 0, 0], [0, 1, 0], [0, 0, 1]],
            [[-1, 0, 1], [-1, 0, 0], [0, 1, 0], [0, 0, 1]]],
    "-3m_r": [[[0, 0, 0], [1, 0, 0], [1, 0, -1], [1, 1, 1]],
              [[1, 1, 0], [1, 0, -1], [0, 0, -1], [1, 1, 1]]],
    "-3_r": [[[0, 0, 0], [1, 0, 0], [1, 0, -1], [1, 1, 1]],
             [[1, 1, 0], [1, 0, -1], [0, 0, -1], [1, 1, 1]],
             [[0, -1, -2], [1, 0, 0], [1, 0, -1], [-1, -1, -1]],
             [[1, 0, -2], [1, 0, -1], [0, 0, -1], [-1, -1, -1]]],
}


def kf_class(no, cc):
    """which frozen traversal (if any) the recorded finding covers for this setting"""
    if no <= 2:
        return "-1", 1.0
    if no <= 15:
        return "2/m", 1.0
    if cc == "rhombohedral" and no in (146, 148):
        return "-3_r", 1.1
    if cc == "rhombohedral" and no in R_GROUPS:
        return "-3m_r", 1.0
    return None, 1.0


def baseline_reach(cell, lim, segm):
    """points the pinned traversal visits (early exit at the first point beyond lim in each of the
    three nested scans); the very first point (000) is skipped as in the code"""
    Gs = O.recip_metric(cell)
    g00, g11, g22 = Gs[0, 0], Gs[1, 1], Gs[2, 2]
    g01, g02, g12 = 2 * Gs[0, 1], 2 * Gs[0, 2], 2 * Gs[1, 2]
    lim2 = (2.0 * lim) ** 2

    def beyond(p):
        h, k, l = p
        return (g00 * h * h + g11 * k * k + g22 * l * l + g01 * h * k + g02 * h * l + g12 * k * l) > lim2

    visited = []
    first = True
    for seg in segm:
        o, d1, d2, d3 = [tuple(v) for v in seg]
        save1 = o
        save = o
        last = o
        guard = 0
        while True:
            while True:
                while True:
                    guard += 1
                    if guard > 2000000:
                        raise core.HarnessError("baseline_reach does not terminate")
                    if first:
                        first = False
                    else:
                        visited.append(last)
                    new = (last[0] + d1[0], last[1] + d1[1], last[2] + d1[2])
                    if beyond(new):
                        break
                    last = new
                save = (save[0] + d2[0], save[1] + d2[1], save[2] + d2[2])
                last = save
                if beyond(save):
                    break
            save1 = (save1[0] + d3[0], save1[1] + d3[1], save1[2] + d3[2])
            save = save1
            last = save1
            if beyond(save1):
                break
    return visited


# ----------------------------------------------------------------------------- generator
def _valid_angles(al, be, ga):
    ca, cb, cg = [math.cos(math.radians(t)) for t in (al, be, ga)]
    return 1 - ca * ca - cb * cb - cg * cg + 2 * ca * cb * cg > 0.08


def gen_cell(rng, kind):
    """-> (style, [a,b,c,alpha,beta,gamma]) conforming to the crystal system"""
    if rng.chance(0.08):
        # a cell typed the way people type it: whole numbers (Python ints; the executor keeps them ints)
        def Li():
            return float(rng.between(3, 12))
        if kind == "triclinic":
            while True:
                ang = [float(rng.choice([60, 70, 75, 80, 85, 90, 95, 100, 105, 110, 120])) for _ in range(3)]
                if _valid_angles(*ang):
                    return "intcell", [Li(), Li(), Li()] + ang
        if kind == "monoclinic":
            return "intcell", [Li(), Li(), Li(), 90.0, float(rng.choice([60, 75, 90, 95, 100, 105, 110, 120, 130])), 90.0]
        if kind == "orthorhombic":
            return "intcell", [Li(), Li(), Li(), 90.0, 90.0, 90.0]
        if kind == "tetragonal":
            a = Li()
            return "intcell", [a, a, Li(), 90.0, 90.0, 90.0]
        if kind == "hexagonal":
            a = Li()
            return "intcell", [a, a, Li(), 90.0, 90.0, 120.0]
        if kind == "rhombohedral":
            a = Li()
            al = float(rng.choice([50, 60, 70, 80, 90, 100, 110]))
            return "intcell", [a, a, a, al, al, al]
        a = Li()
        return "intcell", [a, a, a, 90.0, 90.0, 90.0]
    long_axis = rng.chance(0.12)

    def L():
        if long_axis and rng.chance(0.5):
            return round(rng.uniform(12.0, 40.0) if rng.chance(0.7) else rng.uniform(40.0, 320.0), rng.choice([1, 2]))
        return round(rng.uniform(2.6, 9.5), rng.choice([1, 2, 4]))
    def eps_deg():
        # a deviation from a special angle that is tiny but real (down to 1e-5 degrees)
        return rng.loguniform(1e-5, 2e-2) * (1 if rng.chance(0.5) else -1)
    if kind == "triclinic":
        style = rng.weighted([("generic", 4), ("orthometric", 2), ("oblique", 3), ("nearspecial", 1), ("almostspecial", 2)])
        while True:
            if style == "orthometric":
                ang = [90.0, 90.0, 90.0]
            elif style == "oblique":
                ang = [rng.choice([rng.uniform(58, 75), rng.uniform(105, 122)]) for _ in range(3)]
            elif style == "nearspecial":
                ang = [rng.choice([90.0, 120.0, 60.0]) + rng.uniform(-0.5, 0.5) for _ in range(3)]
            elif style == "almostspecial":
                ang = [90.0 + eps_deg() for _ in range(3)]
                return style, [L(), L(), L()] + ang
            else:
                ang = [rng.uniform(60, 120) for _ in range(3)]
            ang = [round(x, 3) for x in ang]
            if _valid_angles(*ang):
                return style, [L(), L(), L()] + ang
    if kind == "monoclinic":
        style = rng.weighted([("generic", 4), ("orthometric", 2), ("oblique", 3), ("almostspecial", 2)])
        if style == "almostspecial":
            return style, [L(), L(), L(), 90.0, 90.0 + eps_deg(), 90.0]
        be = 90.0 if style == "orthometric" else (
            rng.choice([rng.uniform(58, 75), rng.uniform(110, 135)]) if style == "oblique" else rng.uniform(60, 135))
        return style, [L(), L(), L(), 90.0, round(be, 3), 90.0]
    if kind == "orthorhombic":
        style = rng.weighted([("generic", 4), ("a=b", 1), ("a~b", 1)])
        a = L()
        if style == "a~b":
            # almost tetragonal metric: different families with almost, but not exactly, the same sin(theta)/lambda
            return style, [a, a * (1.0 + rng.loguniform(1e-9, 1e-4)), L(), 90.0, 90.0, 90.0]
        return style, [a, a if style == "a=b" else L(), L(), 90.0, 90.0, 90.0]
    if kind == "tetragonal":
        style = rng.weighted([("generic", 4), ("c=a", 1), ("c~a", 1)])
        a = L()
        if style == "c~a":
            return style, [a, a, a * (1.0 + rng.loguniform(1e-9, 1e-4)), 90.0, 90.0, 90.0]
        return style, [a, a, a if style == "c=a" else L(), 90.0, 90.0, 90.0]
    if kind == "hexagonal":
        a = L()
        return "generic", [a, a, L(), 90.0, 90.0, 120.0]
    if kind == "rhombohedral":
        style = rng.weighted([("generic", 4), ("acute", 2), ("obtuse", 2), ("alpha90", 1), ("alpha60", 1)])
        al = {"generic": rng.uniform(40, 110), "acute": rng.uniform(32, 55), "obtuse": rng.uniform(95, 116),
              "alpha90": 90.0, "alpha60": 60.0}[style]
        al = round(al, 3)
        a = L()
        return style, [a, a, a, al, al, al]
    a = L()
    return "generic", [a, a, a, 90.0, 90.0, 90.0]


HUG = [0.3]


def gen_shell(rng, cell, tier, scale, min_index=0):
    """-> (smin, smax) respecting the 1e-9 margin rule, or None.  min_index > 0 asks for a shell that reaches
    at least that index along every axis (used by the adjacency sweeps, where both shells must share points)"""
    hi = 0.45 if tier == "quick" else 0.8
    cap = 30000 if tier == "quick" else 120000
    lo = 0.10
    if min_index:
        lo = max(lo, (min_index + 0.5) / (2.0 * min(cell[:3])))
        if lo >= hi:
            return None
    for _ in range(60):
        smax = rng.uniform(lo, hi)
        while True:
            npts = 1
            for i in range(3):
                npts *= 2 * int(2 * smax * scale * cell[i] + 1) + 3
            if npts <= cap:
                break
            smax *= 0.85
        if min_index and smax < lo:
            continue
        m = rng.below(10)
        smin = 0.0 if (m < 6 or min_index) else (-0.1 if m == 6 else rng.uniform(0.0, smax * 0.9))
        allstl = O.stl_of(O.box_points(cell, smax * scale), O.recip_metric(cell))
        if rng.chance(HUG[0]) and len(allstl):
            # put a bound right next to a lattice value (still outside the 1e-9 clearance the quantifier asks for):
            # this is where an approximate or differently rounded sin(theta)/lambda shows
            import numpy as _np
            inside = allstl[(allstl > 0.2 * smax) & (allstl <= smax)]
            near = None
            if len(inside) > 2 and rng.chance(0.5):
                # prefer a bound BETWEEN two lattice values that are nearly, but not exactly, degenerate (almost-special
                # cells produce them): the place where an approximated metric merges or swaps reflections
                u = _np.unique(inside)
                gaps = _np.diff(u) / u[1:]
                cand = _np.nonzero((gaps > 1e-8) & (gaps < 1e-4))[0]
                if len(cand):
                    j = int(cand[rng.below(len(cand))])
                    near = 0.5 * (float(u[j]) + float(u[j + 1]))
            if near is not None:
                if rng.chance(0.7) or smin <= 0:
                    smax = near
                    allstl = O.stl_of(O.box_points(cell, smax * scale), O.recip_metric(cell))
                else:
                    smin = min(near, smax * 0.95)
            elif len(inside):
                v = float(inside[rng.below(len(inside))])
                d = rng.loguniform(1e-8, 1e-3) * (1 if rng.chance(0.5) else -1)
                if rng.chance(0.7) or smin <= 0:
                    smax = v * (1.0 + d)
                    allstl = O.stl_of(O.box_points(cell, smax * scale), O.recip_metric(cell))
                else:
                    smin = min(v * (1.0 + d), smax * 0.95)
        if O.margin_ok(allstl, [smin, smax, smax * scale]):
            return smin, smax
    return None


def name_variant(rng, base):
    out = []
    for ch in base:
        out.append(ch.upper() if rng.chance(0.4) else ch)
        if rng.chance(0.15):
            out.append(" " * rng.between(1, 2))
    return "".join(out)


def gen_schedule(rng, kinds):
    sch = {"start": None, "preconsume": 0, "per_draw": {}}
    k = rng.below(10)
    if k < 4:
        sch["start"] = ["seed", rng.choice([0, 1, 2, 42, 1234, (1 << 32) - 1, rng.bits(32), rng.bits(32)])]
    elif k < 6:
        sch["start"] = ["seed_array", [rng.bits(32) for _ in range(rng.between(1, 6))]]
    else:
        sch["start"] = ["continue"]
    if "preconsume" in kinds and rng.chance(0.5):
        sch["preconsume"] = rng.choice([1, 2, 3, 7, 623, 624, 625, rng.between(1, 3000)])
    if "steal" in kinds and rng.chance(0.6):
        for _ in range(rng.between(1, 6)):
            sch["per_draw"][str(rng.below(40))] = ["steal", rng.choice([1, 2, 3, 5, 9, 624])]
    if "reseed" in kinds and rng.chance(0.6):
        c = rng.choice([0, 0, 1, 42, rng.bits(32)])
        if rng.chance(0.5):
            sch["per_draw"]["all"] = ["reseed", c]
        else:
            for _ in range(rng.between(1, 5)):
                sch["per_draw"][str(rng.below(40))] = ["reseed", c]
    return sch


def gen_workload(rng, tier, no, cc, min_index=0):
    kind = cell_kind(no, cc)
    _, scale = kf_class(no, cc)
    for _ in range(200):
        style, cell = gen_cell(rng, kind)
        HUG[0] = 0.8 if style in ("almostspecial", "a~b", "c~a", "nearspecial") else 0.3
        try:
            sh = gen_shell(rng, cell, tier, scale, min_index)
        finally:
            HUG[0] = 0.3
        if sh is not None:
            break
    else:
        raise core.HarnessError("no margin-respecting shell found")
    return {"sgno": no, "cell_choice": cc, "cell": [core.fhex(x) for x in cell], "cell_style": style,
            "smin": core.fhex(sh[0]), "smax": core.fhex(sh[1]),
            "pair": bool(no in R_GROUPS and rng.chance(0.6))}


def related_workload(rng, tier, w):
    """a second workload of the same session, chosen to differ from the first in few arguments
    (what a cache or a memo keyed on too little would confuse)"""
    no, cc = w["sgno"], w["cell_choice"]
    r = rng.below(9)
    if r == 8:
        # another setting with the same reflection-condition vector but different axes
        tw = [t for t in SYSCOND_TWINS if [no, cc] in t]
        if tw:
            cands = [x for x in tw[0] if cell_kind(x[0], x[1]) != cell_kind(no, cc)]
            if cands:
                n2, c2 = rng.choice(cands)
                return gen_workload(rng, tier, n2, c2, 3)
        r = rng.below(8)
    if r == 0 and no in R_GROUPS:
        return gen_workload(rng, tier, no, "rhombohedral" if cc == "standard" else "standard")
    if r <= 2:
        # same setting and cell, another shell
        cell = [core.unhex(x) for x in w["cell"]]
        sh = gen_shell(rng, cell, tier, kf_class(no, cc)[1])
        if sh is not None:
            w2 = dict(w)
            w2["smin"], w2["smax"] = core.fhex(sh[0]), core.fhex(sh[1])
            return w2
    if r <= 4:
        return gen_workload(rng, tier, no, cc)            # same setting, another cell and shell
    if r <= 6:
        # a neighbouring group number of the same crystal family (same cell kind)
        cands = [(n, cc) for n in (no - 2, no - 1, no + 1, no + 2) if 1 <= n <= 230 and
                 cell_kind(n, cc if n in R_GROUPS else "standard") == cell_kind(no, cc)]
        if cands:
            n2, c2 = rng.choice(cands)
            c2 = c2 if n2 in R_GROUPS else "standard"
            cell = [core.unhex(x) for x in w["cell"]]
            sh = gen_shell(rng, cell, tier, kf_class(n2, c2)[1])
            if sh is not None:
                return {"sgno": n2, "cell_choice": c2, "cell": w["cell"], "cell_style": w["cell_style"],
                        "smin": w["smin"] if rng.chance(0.5) else core.fhex(sh[0]),
                        "smax": w["smax"] if rng.chance(0.5) else core.fhex(sh[1]), "pair": False} \
                    if O.margin_ok(O.stl_of(O.box_points(cell, max(core.unhex(w["smax"]), sh[1]) * 1.1), O.recip_metric(cell)),
                                   [core.unhex(w["smin"]), core.unhex(w["smax"]), sh[0], sh[1],
                                    core.unhex(w["smax"]) * kf_class(n2, c2)[1], sh[1] * kf_class(n2, c2)[1]]) \
                    else gen_workload(rng, tier, n2, c2)
    n2, c2 = rng.choice(SETTINGS)
    return gen_workload(rng, tier, n2, c2)


def gen_mode(rng, no, cc):
    names = SGNAMES[no]
    if rng.chance(0.5):
        return {"by": "sgno"}
    if cc == "rhombohedral":
        if rng.chance(0.5):
            base = [n for n in names if not n.endswith("r") or n[:-1] not in names]
            return {"by": "sgname", "name": name_variant(rng, rng.choice(base)), "cell_choice": "rhombohedral"}
        auto = [n for n in names if n.endswith("r") and len(n) > 2 and n[:-1] in names]
    else:
        auto = [n for n in names if not (n.endswith("r") and n[:-1] in names)]
    return {"by": "sgname", "name": name_variant(rng, rng.choice(auto))}


def _twin_pairs():
    out = []
    for t in SYSCOND_TWINS:
        for a in t:
            for b in t:
                if a != b and cell_kind(a[0], a[1]) != cell_kind(b[0], b[1]):
                    out.append((tuple(a), tuple(b)))
    return out


TWIN_PAIRS = _twin_pairs()
# sessions whose shell holds EXACTLY N symmetry-unique reflections, N at and next to powers of two (block sizes,
# preallocated buffers, off-by-one loop bounds live there); (setting, N, module)
ALIGNED = [((47, "standard"), 1025, "tools"), ((2, "standard"), 2049, "laue"), ((47, "standard"), 2048, "laue"),
           ((16, "standard"), 4097, "tools")]
ALIGNED_THOROUGH = [((sg_, "standard"), n_, m_) for sg_ in (47, 16, 2, 1) for n_ in (1023, 1024, 1025, 2047, 2048, 2049, 4095, 4096, 4097)
                    for m_ in ("tools", "laue")]
N_SWEEPS = 2 * len(SETTINGS) + len(TWIN_PAIRS)
N_ENUM = N_SWEEPS + len(ALIGNED)


def generate_aligned(rng, tier, setting, nfam, module):
    """orthogonal-metric cell (no reflection conditions in these groups, the recorded traversal finding does not apply
    to orthogonal metrics) and a shell (0, smax] that contains exactly `nfam` Laue families"""
    import numpy as _np
    no, cc = setting
    for _ in range(50):
        cell = [round(rng.uniform(5.0, 9.0), 4) for _ in range(3)] + [90.0, 90.0, 90.0]
        vol = cell[0] * cell[1] * cell[2]
        mult = 8.0 if no in (47, 16) else 2.0
        s_big = 0.5 * ((1.6 * nfam * mult) * 3.0 / (4.0 * math.pi * vol)) ** (1.0 / 3.0)
        P = O.box_points(cell, s_big)
        st = O.stl_of(P, O.recip_metric(cell))
        keep = st <= s_big
        P, st = P[keep], st[keep]
        if no in (47, 16):
            key = _np.abs(P)
        else:
            sign = _np.where((P[:, 0] > 0) | ((P[:, 0] == 0) & (P[:, 1] > 0)) | ((P[:, 0] == 0) & (P[:, 1] == 0) & (P[:, 2] > 0)), 1, -1)
            key = P * sign[:, None]
        _, idx = _np.unique(key, axis=0, return_index=True)
        fst = _np.sort(st[idx])
        if len(fst) <= nfam + 1:
            continue
        lo, hi = float(fst[nfam - 1]), float(fst[nfam])
        if hi - lo <= 1e-7 * hi:
            continue
        smax = 0.5 * (lo + hi)
        if not O.margin_ok(O.stl_of(O.box_points(cell, smax), O.recip_metric(cell)), [0.0, smax]):
            continue
        w = {"sgno": no, "cell_choice": cc, "cell": [core.fhex(x) for x in cell], "cell_style": "aligned_count",
             "smin": core.fhex(0.0), "smax": core.fhex(smax), "pair": False}
        ops = [{"fn": "genhkl_all", "module": module, "mode": {"by": "sgno"}, "output_stl": True,
                "rng": {"start": ["seed", 0], "preconsume": 0, "per_draw": {}}, "w": 0},
               {"fn": "genhkl_unique", "module": module, "mode": {"by": "sgno"}, "output_stl": False, "rng": None, "w": 0}]
        cfg = {"workloads": [w], "fault_free": True, "fault_kinds": [], "session_seed": rng.bits(32),
               "cell_container": "list", "aligned_families": nfam}
        return {"property": "C05", "config": cfg, "ops": ops}
    raise core.HarnessError("no aligned-count shell found")


SWEEP = {"quick": 8000, "thorough": 400000}
# (setting, order of its Laue group): the cost of a session grows with the number of families, the number of distinct
# pairs of equivalent reflections (what a stream-dependent de-duplication can confuse) with families x order^2
SWEEP_SETTINGS = [((221, "standard"), 48), ((229, "standard"), 48), ((225, "standard"), 48), ((200, "standard"), 24),
                  ((191, "standard"), 24), ((123, "standard"), 16), ((139, "standard"), 16), ((175, "standard"), 12),
                  ((162, "standard"), 12), ((166, "rhombohedral"), 12), ((83, "standard"), 8), ((47, "standard"), 8),
                  ((148, "standard"), 6), ((10, "standard"), 4), ((2, "standard"), 2)]


def generate_sweep(rng, tier, index):
    """cheap session whose only interesting degree of freedom is the state of the global stream at the first use
    in a fresh process (the property quantifies over 'any numpy RNG seed'): one small high-multiplicity workload, the
    first genhkl_all call under a random stream state, a second one under another"""
    (no, cc), order = rng.choice(SWEEP_SETTINGS)
    kind = cell_kind(no, cc)
    _, scale = kf_class(no, cc)
    for _ in range(200):
        style, cell = gen_cell(rng, kind)
        if max(cell[:3]) > 9.5:
            continue
        # a few hundred lattice points in the sphere, whatever the cell volume
        Gs_ = O.recip_metric(cell)
        import numpy as _np
        vol = 1.0 / math.sqrt(abs(float(_np.linalg.det(Gs_))))
        ntarget = rng.uniform(100.0, 300.0) * max(1.0, order / 6.0)
        smax = 0.5 * (ntarget * 3.0 / (4.0 * math.pi * vol)) ** (1.0 / 3.0)
        if not (0.08 <= smax <= 0.95):
            continue
        allstl = O.stl_of(O.box_points(cell, smax * scale), O.recip_metric(cell))
        if len(allstl) <= 40000 and O.margin_ok(allstl, [0.0, smax, smax * scale]):
            break
    else:
        raise core.HarnessError("no sweep workload found")
    w = {"sgno": no, "cell_choice": cc, "cell": [core.fhex(x) for x in cell], "cell_style": style,
         "smin": core.fhex(0.0), "smax": core.fhex(smax), "pair": False}
    module = rng.choice(["tools", "laue"])
    ops = []
    for _ in range(2):
        st = ["seed", rng.bits(32)] if rng.chance(0.8) else ["seed_array", [rng.bits(32) for _ in range(rng.between(1, 4))]]
        ops.append({"fn": "genhkl_all", "module": module, "mode": {"by": "sgno"}, "output_stl": False,
                    "rng": {"start": st, "preconsume": rng.choice([0, 0, rng.between(1, 700)]), "per_draw": {}}, "w": 0})
    cfg = {"workloads": [w], "fault_free": False, "fault_kinds": ["seed_sweep"], "session_seed": rng.bits(32),
           "cell_container": "list", "sweep": True}
    return {"property": "C05", "config": cfg, "ops": ops}


def indices(prop, tier, runs, start):
    """C05 appends the stream-state sweep to the sessions it shares with C06"""
    base = list(range(start, start + runs))
    if prop == "C05" and start == 0:
        return base + list(range(SWEEP_BASE, SWEEP_BASE + int(SWEEP[tier] * min(1.0, runs / 4000.0))))
    return base


SWEEP_BASE = 10 ** 9


def generate(rng, tier, index):
    if index >= SWEEP_BASE:
        return generate_sweep(rng, tier, index)
    twin = None
    if index < 2 * len(SETTINGS):
        no, cc = SETTINGS[index % len(SETTINGS)]
        module = ["tools", "laue"][(index // len(SETTINGS)) % 2]
    elif index < N_SWEEPS:
        # systematic adjacency sweep: setting A, then setting B with the same condition vector on other axes
        (no, cc), twin = TWIN_PAIRS[index - 2 * len(SETTINGS)]
        module = rng.choice(["tools", "laue"])
    elif index < N_ENUM:
        st_, n_, m_ = ALIGNED[index - N_SWEEPS]
        return generate_aligned(rng, tier, st_, n_, m_)
    elif tier == "thorough" and index < N_ENUM + len(ALIGNED_THOROUGH):
        st_, n_, m_ = ALIGNED_THOROUGH[index - N_ENUM]
        return generate_aligned(rng, tier, st_, n_, m_)
    else:
        # R-centred groups get extra weight (two settings each)
        if rng.below(10) == 0:
            no, cc = rng.choice(R_GROUPS), rng.choice(["standard", "rhombohedral"])
        else:
            no, cc = rng.choice(SETTINGS)
        module = rng.choice(["tools", "laue"])
    workloads = [gen_workload(rng, tier, no, cc, 3 if twin is not None else 0)]
    if twin is not None:
        workloads.append(gen_workload(rng, tier, twin[0], twin[1], 3))
    elif index >= N_ENUM and rng.chance(0.35):
        workloads.append(related_workload(rng, tier, workloads[0]))
        if rng.chance(0.25):
            workloads.append(related_workload(rng, tier, workloads[rng.below(2)]))
    fault_free = rng.chance(0.4)
    kinds = [] if fault_free else [k for k in ("preconsume", "steal", "reseed") if rng.chance(0.6)] or ["reseed"]
    ops = []
    for wi, w in enumerate(workloads):
        wops = []
        for _ in range(rng.between(2, 4) if wi == 0 else rng.between(1, 2)):
            m = module if rng.chance(0.8) else ("laue" if module == "tools" else "tools")
            sch = gen_schedule(rng, kinds)
            if fault_free:
                sch = {"start": sch["start"], "preconsume": 0, "per_draw": {}}
            wops.append({"fn": "genhkl_all", "module": m, "mode": gen_mode(rng, w["sgno"], w["cell_choice"]),
                         "output_stl": rng.chance(0.5), "rng": sch, "w": wi, "kwcall": rng.chance(0.25),
                         "scribble": rng.choice([None, None, None, "scale", "zero"])})
        if wi == 0 and rng.chance(0.3):
            # state restore: repeat one call from the same start state (determinism probe)
            j = rng.below(len(wops))
            if wops[j]["rng"]["start"][0] != "continue":
                wops.append(copy.deepcopy(wops[j]))
                wops[-1]["restore"] = True
        for _ in range(rng.between(1, 2) if wi == 0 else rng.between(0, 1)):
            m = module if rng.chance(0.8) else ("laue" if module == "tools" else "tools")
            wops.insert(rng.below(len(wops) + 1),
                        {"fn": "genhkl_unique", "module": m, "mode": gen_mode(rng, w["sgno"], w["cell_choice"]),
                         "output_stl": rng.chance(0.5), "rng": None, "w": wi, "kwcall": rng.chance(0.25),
                         "scribble": rng.choice([None, None, "scale", "zero", "reverse"])})
        ops.append(wops)
    # interleave the workloads' calls (order inside one workload is kept)
    merged = []
    cursors = [0] * len(ops)
    while any(cursors[i] < len(ops[i]) for i in range(len(ops))):
        live = [i for i in range(len(ops)) if cursors[i] < len(ops[i])]
        i = live[0] if len(live) == 1 else rng.choice(live)
        merged.append(ops[i][cursors[i]])
        cursors[i] += 1
    if not fault_free and rng.chance(0.25):
        # re-entrancy: while one call is in progress (at a traced line inside xfab) the second party makes a call of
        # its own, for another workload of the session if there is one
        for op in merged:
            if rng.chance(0.3):
                w2 = rng.below(len(workloads))
                m2 = op["module"] if rng.chance(0.7) else ("laue" if op["module"] == "tools" else "tools")
                op["preempt"] = {"at": int(rng.loguniform(1, 20000)),
                                 "op": {"fn": rng.choice(["genhkl_all", "genhkl_unique"]), "module": m2,
                                        "mode": {"by": "sgno"}, "output_stl": rng.chance(0.5), "w": w2,
                                        "rng": {"start": ["continue"], "preconsume": 0, "per_draw": {}}}}
    cfg = {"logging": rng.weighted([("quiet", 5), ("default", 2), ("debug", 3)]), "clock": core.gen_clock(rng),
           "checks_off": rng.chance(0.2), "warnings": core.gen_warn(rng),
           "workloads": workloads, "fault_free": fault_free, "fault_kinds": kinds, "session_seed": rng.bits(32),
           "cell_container": rng.choice(["list", "list", "ndarray"])}
    if rng.chance(0.01):
        cfg["import_env"] = rng.choice(core.IMPORT_ENVS)
    return {"property": "C05", "config": cfg, "ops": merged}


# ----------------------------------------------------------------------------- RNG seam
class RngSeam(object):
    def __init__(self, np):
        self.np = np
        self.orig = {}
        self.sched = None
        self.ndraw = 0
        self.fired = {}
        self.log = []

    def install(self):
        np = self.np
        for name in DRAW_FUNCS:
            f = getattr(np.random, name, None)
            if f is None:
                continue
            self.orig[name] = f
            setattr(np.random, name, self._wrap(name, f))

    def remove(self):
        for name, f in self.orig.items():
            setattr(self.np.random, name, f)
        self.orig = {}

    def begin(self, sched):
        self.sched = sched or {"start": ["continue"], "preconsume": 0, "per_draw": {}}
        self.ndraw = 0
        self.log = []
        st = self.sched["start"]
        if st[0] == "seed":
            self.np.random.seed(int(st[1]))
            self._fire("seed_int")
        elif st[0] == "seed_array":
            self.np.random.seed(self.np.array(st[1], dtype=self.np.uint32))
            self._fire("seed_array")
        else:
            self._fire("session_continue")
        k = int(self.sched.get("preconsume", 0))
        if k:
            self.orig["rand"](k)
            self._fire("preconsume")

    def _fire(self, k):
        self.fired[k] = self.fired.get(k, 0) + 1

    def _wrap(self, name, f):
        def w(*a, **kw):
            if self.sched is not None:
                pd = self.sched["per_draw"]
                fault = pd.get(str(self.ndraw)) or pd.get("all")
                if fault is not None:
                    if fault[0] == "steal":
                        self.orig["rand"](int(fault[1]))
                        self._fire("steal")
                    elif fault[0] == "reseed":
                        self.np.random.seed(int(fault[1]))
                        self._fire("hostile_reseed")
                self.log.append(name)
                self.ndraw += 1
            return f(*a, **kw)
        w.__name__ = name
        return w


# ----------------------------------------------------------------------------- executor
def _viol(props, clause, site, detail):
    return {"props": props, "clause": clause, "site": site, "detail": detail}


def _fmt(rows, n=6):
    rows = sorted(rows)
    return "%d: %s%s" % (len(rows), rows[:n], "..." if len(rows) > n else "")


def rhomb_from_hex_cell(cell_h):
    a, c = cell_h[0], cell_h[2]
    ar = math.sqrt(3 * a * a + c * c) / 3.0
    al = 2 * math.degrees(math.asin(min(1.0, 1.5 / math.sqrt(3 + (c / a) ** 2))))
    return [ar, ar, ar, al, al, al]


def hex_from_rhomb_cell(cell_r):
    a, al = cell_r[0], math.radians(cell_r[3])
    ah = 2 * a * math.sin(al / 2)
    ch = a * math.sqrt(3 + 6 * math.cos(al))
    return [ah, ah, ch, 90.0, 90.0, 120.0]


def hex_to_rhomb_index(h):
    """standard obverse transformation; returns None if not integral (cannot happen for allowed hkl)"""
    a = 2 * h[0] + h[1] + h[2]
    b = -h[0] + h[1] + h[2]
    c = -h[0] - 2 * h[1] + h[2]
    if a % 3 or b % 3 or c % 3:
        return None
    return (a // 3, b // 3, c // 3)


def workloads_of(cfg):
    """new traces carry a list of workloads; the pinned witnesses carry one inline"""
    if "workloads" in cfg:
        return cfg["workloads"]
    return [{k: cfg[k] for k in ("sgno", "cell_choice", "cell", "smin", "smax") if k in cfg} | {"pair": cfg.get("pair", False)}]


class _Ctx(object):
    """reference model of one workload (setting, cell, shell)"""


def build_ctx(np, sg, w, kf_open, container):
    c = _Ctx()
    c.no, c.cc = int(w["sgno"]), w["cell_choice"]
    c.cell = [core.unhex(x) for x in w["cell"]]
    c.smin, c.smax = core.unhex(w["smin"]), core.unhex(w["smax"])
    c.kfc, c.scale = kf_class(c.no, c.cc)
    c.Gs = O.recip_metric(c.cell)
    c.in_quantifier = O.margin_ok(O.stl_of(O.box_points(c.cell, c.smax * c.scale), c.Gs),
                                  [c.smin, c.smax, c.smax * c.scale]) and c.smin < c.smax
    spg = sg.sg(sgno=c.no, cell_choice=c.cc)
    c.rot = np.array(spg.rot)
    c.trans = np.array(spg.trans)
    c.nuniq = int(spg.nuniq)
    P, sP, _ = O.shell(c.cell, c.smin, c.smax, c.rot, c.trans)
    c.truth = set(map(tuple, P.tolist()))
    c.ops_l = O.laue_ops(c.rot, c.nuniq)
    c.member, c.orbits = O.families(P, c.ops_l)
    c.base = None
    if c.kfc is not None and kf_open:
        c.base = set()
        for p in baseline_reach(c.cell, c.smax * c.scale, SEGM[c.kfc]):
            if p in c.truth:
                c.base |= c.orbits[c.member[p]]
    # one cell object per workload for the whole session, as a client would hold it
    if w.get("cell_style") == "intcell" and all(float(x).is_integer() for x in c.cell):
        ints = [int(x) for x in c.cell]
        c.session_cell = np.array(ints) if container == "ndarray" else ints
    else:
        c.session_cell = np.array(c.cell, dtype=float) if container == "ndarray" else list(c.cell)
    c.all_sets = []
    c.uniq_rows = None
    c.results = {}
    c.pair = bool(w.get("pair"))
    return c


def execute(trace):
    import numpy as np
    import warnings
    import logging
    core.import_xfab()
    from xfab import tools, laue, sg
    mods = {"tools": tools, "laue": laue}
    cfg = trace["config"]
    wl = workloads_of(cfg)
    events = []
    counters = {}
    viols = []
    known = []
    sets = {"settings": set()}

    def count(k, n=1):
        counters[k] = counters.get(k, 0) + n

    kf_open = any(f.get("id") == "KF-traversal" for f in core.findings_for("C05"))
    logcfg = core.log_config(cfg.get("logging", "quiet"))
    logcfg.__enter__()
    count("logging." + logcfg.mode)
    clock = core.sim_clock(cfg.get("clock"))
    clock.__enter__()
    # the package-wide input-check switch is just another piece of process configuration a client may have changed
    import xfab as _xfab
    switch_off = bool(cfg.get("checks_off"))
    if switch_off:
        try:
            _xfab.CHECKS.activated = False
            count("config.checks_switch_off")
        except Exception:
            pass
    seam = RngSeam(np)
    saved_state = np.random.get_state()
    # the stream a session starts from is part of the trace (numpy seeds the global state from
    # OS entropy at import: never let that leak into a run)
    np.random.seed(int(cfg.get("session_seed", 0)))
    truth_n = 0
    draws_total = 0
    tot = [0]
    try:
        with core.warn_config(cfg.get("warnings", "ignore")), np.errstate(all="ignore"):
            ctxs = {}

            def ctx_of(wi):
                if wi not in ctxs:
                    if wi >= len(wl) or wl[wi] is None:
                        return None
                    ctxs[wi] = build_ctx(np, sg, wl[wi], kf_open, cfg.get("cell_container", "list"))
                    sets["settings"].add("%d/%s" % (ctxs[wi].no, ctxs[wi].cc))
                return ctxs[wi]

            import sys as _sys
            from . import sched as _sched
            S = _sched.begin()
            src_prefix = os.path.join(os.path.realpath(core.xfab_src()), "xfab") + os.sep

            def call(c, op, cc_=None, cell_=None, nested=None):
                fn = getattr(mods[op["module"]], op["fn"])
                pre = op.get("preempt") if nested is not None else None
                tracer = None
                if pre is not None:
                    c2 = ctx_of(pre["op"].get("w", 0))
                    if c2 is not None and c2.in_quantifier:
                        left = [int(pre["at"])]

                        def local(frame, event, arg):
                            if event == "line":
                                if left[0] == 0:
                                    left[0] = -1
                                    _sys.settrace(None)
                                    # the second party (a real second thread, this one is parked meanwhile) makes a call
                                    # of its own in the middle of ours
                                    keep = (seam.sched, seam.ndraw)
                                    S.on_other(lambda: nested.append((c2, pre["op"]) + call(c2, pre["op"])))
                                    seam.sched, seam.ndraw = keep
                                    return None
                                if left[0] > 0:
                                    left[0] -= 1
                            return local if left[0] >= 0 else None

                        def tracer(frame, event, arg):
                            if left[0] >= 0 and frame.f_code.co_filename.startswith(src_prefix):
                                return local
                            return None
                md = op["mode"]
                kw = {"output_stl": bool(op["output_stl"])}
                if md["by"] == "sgno":
                    kw["sgno"] = c.no
                    kw["cell_choice"] = cc_ or c.cc
                else:
                    kw["sgname"] = md["name"]
                    if "cell_choice" in md:
                        kw["cell_choice"] = md["cell_choice"]
                seam.begin(op.get("rng"))
                try:
                    if tracer is not None:
                        _sys.settrace(tracer)
                    try:
                        cell_arg = c.session_cell if cell_ is None else list(cell_)
                        if op.get("kwcall"):
                            out = fn(unit_cell=cell_arg, sintlmin=c.smin, sintlmax=c.smax, **kw)
                        else:
                            out = fn(cell_arg, c.smin, c.smax, **kw)
                        exc = None
                    except Exception as e:  # noqa
                        out, exc = None, "%s: %s" % (type(e).__name__, str(e)[:80])
                finally:
                    if tracer is not None:
                        _sys.settrace(None)
                        S.finish_other()
                        if left[0] >= 0:
                            count("probe.preempt_point_not_reached")
                    nd = seam.ndraw
                    seam.sched = None
                return out, exc, nd

            def rows_of(out, site, want_cols):
                """-> (int rows list, stl column or None) or None after recording a violation"""
                a = np.asarray(out)
                if a.ndim != 2 or a.shape[1] != want_cols:
                    viols.append(_viol(["C06"], "wrong number of columns", site,
                                       "shape %s, expected (n,%d)" % (list(a.shape), want_cols)))
                    if a.ndim != 2 or a.shape[1] < 3:
                        return None
                hk = a[:, :3]
                if hk.size and not np.all(hk == np.rint(hk)):
                    viols.append(_viol(["C05", "C06"], "non-integer indices", site, ""))
                    return None
                rows = [tuple(int(v) for v in r) for r in np.rint(hk).tolist()]
                col = a[:, 3].tolist() if a.shape[1] >= 4 else None
                return rows, col

            def check_order_and_col(c, rows, col, site, output_stl):
                # C06: non-decreasing sin(theta)/lambda (oracle's own value), 4th column == that value
                s = O.stl_of(np.array(rows, dtype=np.int64).reshape(-1, 3), c.Gs).tolist() if rows else []
                for i in range(1, len(s)):
                    if s[i] < s[i - 1] * (1 - 1e-12):
                        viols.append(_viol(["C06"], "rows not ordered by sintl", site,
                                           "row %d %s (%.9g) after %s (%.9g)" % (i, rows[i], s[i], rows[i - 1], s[i - 1])))
                        break
                if output_stl and col is not None:
                    for i in range(len(s)):
                        if not abs(col[i] - s[i]) <= 1e-9 * max(s[i], 1e-300):
                            viols.append(_viol(["C06"], "fourth column wrong", site,
                                               "row %s has %.12g, sintl is %.12g" % (rows[i], col[i], s[i])))
                            break

            def judge_op(opi, op, c, out, exc, nd):
                site = "%s.%s" % (op["module"], op["fn"])
                tot[0] += nd
                count("calls." + op["fn"])
                count("mode." + op["mode"]["by"])
                if exc is not None:
                    viols.append(_viol(["C05", "C06"], "exception", site, exc))
                    events.append([opi, site, "exc", exc])
                    return
                arr = np.array(out, copy=True)
                # the event log records WHAT was returned, not the order of rows the property leaves free (members of a
                # family, ties in sin(theta)/lambda): an implementation may even draw that order from private entropy
                try:
                    canon_rows = sorted(tuple(float(v) for v in r) for r in arr.tolist()) if arr.ndim == 2 else arr.tolist()
                except Exception:
                    canon_rows = repr(arr)
                events.append([opi, site, list(arr.shape), core.digest(canon_rows)[:16]])
                if op.get("scribble") and isinstance(out, np.ndarray) and out.size:
                    # the caller owns what it was handed and reuses it as scratch space
                    try:
                        if op["scribble"] == "scale":
                            out *= 2
                        elif op["scribble"] == "zero":
                            out[...] = 0
                        else:
                            out[...] = out[::-1].copy()
                        count("fault.caller_overwrites_returned_array")
                    except ValueError:
                        count("probe.returned_array_read_only")
                out = arr
                r = rows_of(out, site, 4 if op["output_stl"] else 3)
                if r is None:
                    return
                rows, col = r
                check_order_and_col(c, rows, col, site, op["output_stl"])
                got = set(rows)
                truth = c.truth
                if op["fn"] == "genhkl_all":
                    if len(got) != len(rows):
                        seen, rep = set(), set()
                        for x in rows:
                            (rep if x in seen else seen).add(x)
                        viols.append(_viol(["C05"], "repeated reflections", site, _fmt(rep)))
                    extra = got - truth
                    missing = truth - got
                    if extra:
                        viols.append(_viol(["C05"], "extra reflections", site, _fmt(extra)))
                    if missing:
                        if c.base is not None:
                            un = missing & c.base
                            if un:
                                viols.append(_viol(["C05"], "missing reflections", site,
                                                   "%s (reached by the recorded baseline traversal)" % _fmt(un)))
                            else:
                                known.append("KF-traversal")
                                count("known.traversal_miss_calls")
                        else:
                            viols.append(_viol(["C05"], "missing reflections", site, _fmt(missing)))
                    if op.get("restore"):
                        prev = [a for (m_, r_, a) in c.results.get("restore", []) if m_ == op["module"] and r_ == op["rng"]]
                        if prev:
                            same = prev[0].shape == arr.shape and prev[0].tobytes() == arr.tobytes()
                            count("probe.state_restore_identical" if same else "probe.state_restore_differs")
                    elif op.get("rng") and op["rng"]["start"][0] != "continue":
                        c.results.setdefault("restore", []).append((op["module"], op["rng"], arr))
                    c.all_sets.append((opi, frozenset(got)))
                else:
                    notin = [x for x in rows if x not in truth]
                    if notin:
                        viols.append(_viol(["C06"], "unique: row is not an allowed reflection of the shell", site, _fmt(notin)))
                    fam = {}
                    dup = []
                    for x in rows:
                        if x in c.member:
                            if c.member[x] in fam:
                                dup.append((fam[c.member[x]], x))
                            fam[c.member[x]] = x
                    if dup:
                        viols.append(_viol(["C06"], "unique: two rows in one Laue family", site, str(dup[:4])))
                    lost = [i for i in range(len(c.orbits)) if i not in fam]
                    if lost:
                        if c.base is not None:
                            un = [i for i in lost if next(iter(c.orbits[i])) in c.base]
                            if un:
                                viols.append(_viol(["C06"], "unique: Laue family missing", site,
                                                   _fmt([min(c.orbits[i]) for i in un]) + " (reached by the recorded baseline traversal)"))
                            else:
                                known.append("KF-traversal")
                        else:
                            viols.append(_viol(["C06"], "unique: Laue family missing", site,
                                               _fmt([min(c.orbits[i]) for i in lost])))
                    if c.uniq_rows is None:
                        c.uniq_rows = (site, rows)
            seam.install()
            outside = False
            for opi, op in enumerate(trace["ops"]):
                c = ctx_of(op.get("w", 0))
                if c is None:
                    continue
                if not c.in_quantifier:
                    # a shrunk / hand-edited trace left the quantifier: nothing is asserted for this workload
                    outside = True
                    count("skip.margin")
                    continue
                nested = []
                out, exc, nd = call(c, op, nested=nested)
                judge_op(opi, op, c, out, exc, nd)
                for (c2, op2, out2, exc2, nd2) in nested:
                    # the call the second party made while ours was in progress is judged like any other call
                    count("fault.preempting_genhkl_call")
                    judge_op(opi, op2, c2, out2, exc2, nd2)
            # per workload: C06 union clause, C05 schedule / history independence, setting pairing
            for wi in sorted(ctxs):
                c = ctxs[wi]
                truth_n += len(c.truth)
                if c.uniq_rows is not None:
                    union = set()
                    for x in c.uniq_rows[1]:
                        union |= O.orbit(x, c.ops_l)
                    for opi, s_ in c.all_sets:
                        if set(s_) != union:
                            viols.append(_viol(["C06"], "genhkl_all is not the union of genhkl_unique's families",
                                               "%s.genhkl_all" % trace["ops"][opi]["module"],
                                               "all-union %s ; union-all %s" % (_fmt(set(s_) - union), _fmt(union - set(s_)))))
                            break
                for (i, a), (j, b) in zip(c.all_sets, c.all_sets[1:]):
                    if a != b:
                        viols.append(_viol(["C05"], "result depends on the RNG schedule / call history",
                                           "%s.genhkl_all" % trace["ops"][j]["module"],
                                           "call %d vs call %d differ by %s" % (i, j, _fmt(set(a) ^ set(b)))))
                        break
                if [float(x) for x in c.session_cell] != [float(x) for x in c.cell]:
                    count("probe.cell_argument_mutated")
                if c.pair and c.no in R_GROUPS and c.all_sets:
                    pair_check(np, c, c.all_sets[0][1], trace["ops"][c.all_sets[0][0]], call, sg, viols, known, count,
                               kf_open, events)
    finally:
        try:
            from . import sched as _sched2
            if _sched2.CURRENT is not None:
                for k_, v_ in _sched2.CURRENT.stats.items():
                    count("probe." + k_, v_)
            _sched2.end()
        except Exception:
            pass
        seam.remove()
        np.random.set_state(saved_state)
        logcfg.__exit__(None, None, None)
        clock.__exit__(None, None, None)
        if clock.reads:
            count("probe.clock_reads_by_code_under_test", clock.reads)
        if clock.jumped:
            count("fault.clock_jump")
        if switch_off:
            try:
                _xfab.CHECKS.activated = True
            except Exception:
                pass
    for k, v in seam.fired.items():
        count("fault." + k, v)
    draws_total = tot[0]
    count("draws_intercepted", draws_total)
    count("workloads_per_run.%d" % len([w for w in wl if w is not None]))
    return {"violation": viols[0] if viols else None, "violations": viols, "events": events, "counters": counters,
            "nontrivial": truth_n >= 1 and draws_total >= 1, "steps": draws_total + len(trace["ops"]),
            "fault_free": bool(cfg.get("fault_free")), "known": sorted(set(known)),
            "sets": {k: sorted(v) for k, v in sets.items()}}


def pair_check(np, c, got_main, op_main, call, sg, viols, known, count, kf_open, events):
    """same reflections in the hexagonal and the rhombohedral setting under the obverse transformation"""
    no, cc, cell, smin, smax = c.no, c.cc, c.cell, c.smin, c.smax
    if cc == "standard":
        cell_r = rhomb_from_hex_cell(cell)
        other_cc, other_cell = "rhombohedral", cell_r
    else:
        cell_r = cell
        other_cc, other_cell = "standard", hex_from_rhomb_cell(cell)
    kfc_o, scale_o = kf_class(no, other_cc)
    # the derived cell must respect the margin rule as well (same lattice, but rounding moves values)
    if not O.margin_ok(O.stl_of(O.box_points(other_cell, smax * scale_o), O.recip_metric(other_cell)),
                       [smin, smax, smax * scale_o]):
        count("skip.pair_margin")
        return
    op = {"fn": "genhkl_all", "module": op_main["module"], "mode": {"by": "sgno"}, "output_stl": False,
          "rng": {"start": ["continue"], "preconsume": 0, "per_draw": {}}}
    out, exc, nd = call(c, op, cc_=other_cc, cell_=other_cell)
    site = "%s.genhkl_all" % op["module"]
    if exc is not None:
        viols.append({"props": ["C05"], "clause": "exception", "site": site, "detail": "pair setting: " + exc})
        return
    a = np.asarray(out)
    if a.ndim != 2 or a.shape[1] < 3 or (a.size and not np.all(a[:, :3] == np.rint(a[:, :3]))):
        viols.append({"props": ["C05"], "clause": "non-integer indices", "site": site, "detail": "pair setting"})
        return
    other = set(tuple(int(v) for v in r) for r in np.rint(a[:, :3]).tolist())
    events.append(["pair", site, list(a.shape), core.digest(sorted(other))[:16]])
    hexset, rhset = (set(got_main), other) if cc == "standard" else (other, set(got_main))
    mapped = set()
    bad = []
    for h in hexset:
        m = hex_to_rhomb_index(h)
        if m is None:
            bad.append(h)
        else:
            mapped.add(m)
    count("pair_checks")
    if bad:
        viols.append({"props": ["C05"], "clause": "hexagonal and rhombohedral settings disagree", "site": site,
                      "detail": "hexagonal-setting reflections violating -h+k+l=3n: " + _fmt(bad)})
        return
    if mapped != rhset:
        only_h = mapped - rhset
        only_r = rhset - mapped
        if only_r or not kf_open:
            viols.append({"props": ["C05"], "clause": "hexagonal and rhombohedral settings disagree", "site": site,
                          "detail": "only via hexagonal %s ; only rhombohedral %s" % (_fmt(only_h), _fmt(only_r))})
            return
        # rhombohedral traversal misses (recorded finding): every reflection missing there must be
        # unreachable under the frozen baseline traversal
        spg = sg.sg(sgno=no, cell_choice="rhombohedral")
        P, sP, _ = O.shell(cell_r, smin, smax, np.array(spg.rot), np.array(spg.trans))
        truth_r = set(map(tuple, P.tolist()))
        ops_l = O.laue_ops(np.array(spg.rot), int(spg.nuniq))
        member, orbits = O.families(P, ops_l)
        kfc_r, scale_r = kf_class(no, "rhombohedral")
        base = set()
        for p in baseline_reach(cell_r, smax * scale_r, SEGM[kfc_r]):
            if p in truth_r:
                base |= orbits[member[p]]
        un = only_h & base
        if un or (only_h - truth_r):
            viols.append({"props": ["C05"], "clause": "hexagonal and rhombohedral settings disagree", "site": site,
                          "detail": "missing in the rhombohedral setting although reached by the baseline traversal: %s ; not allowed there: %s" % (
                              _fmt(un), _fmt(only_h - truth_r))})
        else:
            known.append("KF-traversal")


def execute_for(prop, trace):
    res = execute(trace)
    mine = [v for v in res.get("violations", []) if prop in v["props"]]
    res = dict(res)
    res["violation"] = mine[0] if mine else None
    return res


# ----------------------------------------------------------------------------- shrinking
def _normalise(trace):
    """convert an old single-workload trace to the workload form (for shrinking)"""
    t = copy.deepcopy(trace)
    if "workloads" not in t["config"]:
        t["config"]["workloads"] = workloads_of(t["config"])
    for o in t["ops"]:
        o.setdefault("w", 0)
    return t


def shrink_candidates(trace):
    trace = _normalise(trace)
    ops = trace["ops"]
    wl = trace["config"]["workloads"]
    used = set(o["w"] for o in ops)
    for wi in range(len(wl)):
        if wl[wi] is not None and len([w for w in wl if w is not None]) > 1:
            t = copy.deepcopy(trace)
            t["config"]["workloads"][wi] = None
            t["ops"] = [o for o in ops if o["w"] != wi]
            if t["ops"]:
                yield t
    for i in range(len(ops)):
        t = copy.deepcopy(trace)
        del t["ops"][i]
        yield t
    for wi in range(len(wl)):
        if wl[wi] is not None and wi not in used:
            t = copy.deepcopy(trace)
            t["config"]["workloads"][wi] = None
            yield t
    for i, op in enumerate(ops):
        if op.get("preempt"):
            t = copy.deepcopy(trace)
            del t["ops"][i]["preempt"]
            yield t
    for i, op in enumerate(ops):
        sch = op.get("rng")
        if sch:
            if sch["per_draw"]:
                t = copy.deepcopy(trace)
                t["ops"][i]["rng"]["per_draw"] = {}
                yield t
                for k in sorted(sch["per_draw"]):
                    t = copy.deepcopy(trace)
                    del t["ops"][i]["rng"]["per_draw"][k]
                    yield t
            if sch.get("preconsume"):
                t = copy.deepcopy(trace)
                t["ops"][i]["rng"]["preconsume"] = 0
                yield t
            if sch["start"] != ["seed", 0]:
                t = copy.deepcopy(trace)
                t["ops"][i]["rng"]["start"] = ["seed", 0]
                yield t
        if op["mode"]["by"] != "sgno":
            t = copy.deepcopy(trace)
            t["ops"][i]["mode"] = {"by": "sgno"}
            yield t
        if op["output_stl"]:
            t = copy.deepcopy(trace)
            t["ops"][i]["output_stl"] = False
            yield t
    for wi, w in enumerate(wl):
        if w is None:
            continue
        if w.get("pair"):
            t = copy.deepcopy(trace)
            t["config"]["workloads"][wi]["pair"] = False
            yield t
        smin, smax = core.unhex(w["smin"]), core.unhex(w["smax"])
        if smin != 0.0:
            t = copy.deepcopy(trace)
            t["config"]["workloads"][wi]["smin"] = core.fhex(0.0)
            yield t
        for f in (0.5, 0.7, 0.85, 0.95):
            t = copy.deepcopy(trace)
            t["config"]["workloads"][wi]["smax"] = core.fhex(max(smax * f, smin + 1e-3))
            yield t
        cell = [core.unhex(x) for x in w["cell"]]
        for nd in (0, 1):
            rc = [round(x, nd) for x in cell]
            if rc != cell and all(x > 0 for x in rc[:3]) and _valid_angles(*rc[3:]):
                t = copy.deepcopy(trace)
                t["config"]["workloads"][wi]["cell"] = [core.fhex(x) for x in rc]
                yield t


def trace_size(trace):
    trace = _normalise(trace)
    wl = [w for w in trace["config"]["workloads"] if w is not None]
    faults = sum(len(o["rng"]["per_draw"]) + (1 if o["rng"].get("preconsume") else 0) +
                 (0 if o["rng"]["start"] == ["seed", 0] else 1) for o in trace["ops"] if o.get("rng"))
    digits = sum(len(repr(core.unhex(x))) for w in wl for x in w["cell"])
    return (len(wl), len(trace["ops"]), sum(1 for o in trace["ops"] if o.get("preempt")),
            sum(1 for w in wl if w.get("pair")), faults,
            sum(1 for o in trace["ops"] if o["mode"]["by"] != "sgno") + sum(1 for o in trace["ops"] if o["output_stl"]),
            sum(0 if core.unhex(w["smin"]) == 0.0 else 1 for w in wl),
            round(sum(core.unhex(w["smax"]) for w in wl), 6), digits)


RULE = ("one run = one simulated session: 1-3 workloads (group setting, conforming cell, margin-respecting shell; later "
        "workloads differ from the first in few arguments) and 3-12 interleaved calls of genhkl_all / genhkl_unique (tools or "
        "laue, by number or by name, with or without the sintl column), each genhkl_all under its own schedule of the "
        "process-global numpy RNG stream (start state, prior consumption, steals and hostile reseeds before individual draws, "
        "or the stream left by the previous call); run indices below 474 enumerate all 237 settings x 2 modules, the next 292 all ordered pairs of settings that share a reflection-condition vector on different axes, then sessions whose shell holds exactly N unique reflections for N at powers of two +-1; distinct = "
        "distinct trace digest; non-trivial = the shells contain at least one allowed reflection and at least one draw was "
        "intercepted")


def sample_view(trace):
    out = []
    for w in workloads_of(trace["config"]):
        if w is None:
            continue
        w = dict(w)
        w["cell"] = [core.unhex(x) for x in w["cell"]]
        w["smin"], w["smax"] = core.unhex(w["smin"]), core.unhex(w["smax"])
        out.append(w)
    return {"workloads": out, "fault_kinds": trace["config"].get("fault_kinds"), "ops": trace["ops"][:4],
            "n_ops": len(trace["ops"])}


def coverage_extra(prop, merged, pre):
    c = merged["counters"]
    return {
        "settings_hit": len(merged["sets"].get("settings", [])),
        "settings_total": len(SETTINGS),
        "faults_fired": {k[6:]: v for k, v in c.items() if k.startswith("fault.")},
        "draws_intercepted": c.get("draws_intercepted", 0),
        "probes": {k[6:]: v for k, v in c.items() if k.startswith("probe.")},
        "known_finding_witnesses": pre.get("info", {}),
        "real_vs_stub": {
            "real": ["xfab.tools / xfab.laue genhkl_all, genhkl_unique, genhkl_base, sysabs, sysabs_unique, sintl",
                     "xfab.sg, xfab.sglib", "numpy MT19937 (legacy global RandomState)"],
            "seam": ["pass-through wrappers on numpy.random.%s" % ", ".join(DRAW_FUNCS[:6]) + ", ..."],
            "simulated": ["the second party that seeds / consumes / reseeds the shared stream"],
            "oracle": ["xsim/oracle_hkl.py (brute force + group's own operators)", "frozen baseline traversal (attribution of KF-traversal only)"],
        },
    }


def assumptions(prop):
    return ["shell bounds (and 1.1*sintlmax for the class that scales it) stay > 2e-9 (relative) away from every lattice value",
            "RNG states are those reachable by numpy.random.seed(int | uint32 array) plus consumption; crafted MT19937 keys are out of scope",
            "extinction is taken from the rot/trans tables of the sg instance of the tree under test (C04 covers the tables themselves)",
            "cells: a,b,c in [2.6, 9.5] A, sintlmax <= 0.45 (quick) / 0.8 (thorough)"]


# ----------------------------------------------------------------------------- known-finding witnesses
def precheck(prop, seed, tier):
    """replay the pinned witness of every open finding: still failing -> KNOWN-FINDING line;
    no longer failing -> reported as stale in the evidence (never a violation)"""
    lines = []
    info = {}
    for f in core.findings_for(prop):
        hits = 0
        for w in f.get("witnesses", []):
            from . import runner
            res = runner.run_trace(prop, w["trace"])      # never execute the code under test in the main process
            if res["violation"] is not None:
                # a witness must be fully explained by its finding
                return {"lines": lines, "viols": [(res["violation"], w["trace"])], "info": info}
            hit = f["id"] in res.get("known", [])
            hits += 1 if hit else 0
            info["%s[%s]" % (f["id"], w.get("laue_class"))] = (
                "witness still fails (defect present)" if hit else "witness no longer fails (stale)")
        if hits:
            lines.append("KNOWN-FINDING: property=%s %s %s" % (prop, f["id"], f["what"]))
            info[f["id"] + ".printed"] = True
    return {"lines": lines, "viols": [], "info": info}
