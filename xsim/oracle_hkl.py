"""Brute-force reference model for the reflection lists (C05 / C06).

Independent of every routine in xfab.tools / xfab.laue: metric tensor from the six cell
parameters, all integer hkl in the bounding box, extinction by the property's own definition
from the group's tabulated operators (R, t):  extinct iff some op has hR == h and h.t not integer.
"""
import math

import numpy as np

EXT_TOL = 1e-3   # the tables carry thirds and sixths with six digits


def recip_metric(cell):
    a, b, c, al, be, ga = [float(x) for x in cell]
    ca, cb, cg = [math.cos(math.radians(t)) for t in (al, be, ga)]
    G = np.array([[a * a, a * b * cg, a * c * cb],
                  [a * b * cg, b * b, b * c * ca],
                  [a * c * cb, b * c * ca, c * c]])
    return np.linalg.inv(G)


def stl_of(hkl, Gs):
    """sin(theta)/lambda = |h*| / 2 for integer rows hkl (N,3)"""
    h = np.asarray(hkl, dtype=np.float64)
    q = np.einsum("ij,jk,ik->i", h, Gs, h)
    return 0.5 * np.sqrt(np.maximum(q, 0.0))


def box_points(cell, smax, pad=1):
    """all integer hkl != 000 with |h_i| <= 2*smax*a_i (+pad)"""
    lim = [int(math.floor(2.0 * smax * float(cell[i]) + 1e-9)) + pad for i in range(3)]
    r = [np.arange(-l, l + 1) for l in lim]
    H, K, L = np.meshgrid(r[0], r[1], r[2], indexing="ij")
    P = np.stack([H.ravel(), K.ravel(), L.ravel()], axis=1)
    P = P[np.any(P != 0, axis=1)]
    return P


def extinct_mask(P, rot, trans):
    """rot (nsym,3,3) int, trans (nsym,3): True where the reflection is systematically absent"""
    P = np.asarray(P, dtype=np.int64)
    out = np.zeros(len(P), dtype=bool)
    rot = np.asarray(rot)
    trans = np.asarray(trans, dtype=np.float64)
    for R, t in zip(rot, trans):
        Ri = np.rint(R).astype(np.int64)
        hR = P.dot(Ri)
        fixed = np.all(hR == P, axis=1)
        ph = P.dot(t)
        nonint = np.abs(ph - np.rint(ph)) > EXT_TOL
        out |= fixed & nonint
    return out


def shell(cell, smin, smax, rot, trans):
    """-> (allowed hkl (N,3) int, their stl, all in-box stl values for margin tests)"""
    Gs = recip_metric(cell)
    P = box_points(cell, smax)
    s = stl_of(P, Gs)
    inside = (s > smin) & (s <= smax)
    Pin = P[inside]
    sin_ = s[inside]
    ext = extinct_mask(Pin, rot, trans)
    return Pin[~ext], sin_[~ext], s


def margin_ok(all_stl, bounds, rel=2e-9):
    """every bound stays more than rel (relative) away from every lattice value in the box"""
    for b in bounds:
        if b <= 0:
            continue
        if np.any(np.abs(all_stl - b) <= rel * b):
            return False
    return True


def laue_ops(rot, nuniq):
    R = np.rint(np.asarray(rot)[:nuniq]).astype(np.int64)
    ops = []
    seen = set()
    for M in list(R) + [-m for m in R]:
        key = tuple(M.ravel())
        if key not in seen:
            seen.add(key)
            ops.append(M)
    return ops


def orbit(h, ops):
    h = np.asarray(h, dtype=np.int64)
    return frozenset(tuple(int(x) for x in h.dot(M)) for M in ops)


def families(P, ops):
    """partition integer rows into Laue orbits -> dict member tuple -> orbit id, list of orbits"""
    member = {}
    orbits = []
    for row in P:
        t = tuple(int(x) for x in row)
        if t in member:
            continue
        o = orbit(t, ops)
        oid = len(orbits)
        orbits.append(o)
        for m in o:
            member[m] = oid
    return member, orbits
