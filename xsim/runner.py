"""Seeded search over many simulated runs, shrinking, replay files, evidence."""
import faulthandler
import hashlib
import importlib
import json
import multiprocessing
import os
import sys
import time
import traceback
from concurrent.futures import ProcessPoolExecutor
from concurrent.futures.process import BrokenProcessPool

from . import core, ENGINE_VERSION

ENGINES = {"C05": "xsim.hkl", "C06": "xsim.hkl", "C19": "xsim.c19", "C20": "xsim.c20"}
DEFAULT_RUNS = {
    "C05": {"quick": 4000, "thorough": 300000},
    "C06": {"quick": 4000, "thorough": 300000},
    "C19": {"quick": 60000, "thorough": 3000000},
    "C20": {"quick": 30000, "thorough": 1500000},
}
CHUNK_WALL_LIMIT = 900      # seconds, watchdog per chunk (harness error, never exit 0)


def engine_for(prop):
    return importlib.import_module(ENGINES[prop])


def make_trace(prop, seed, index, tier):
    eng = engine_for(prop)
    rng = core.Rng(core.derive_seed(ENGINES[prop], seed, index))
    t = eng.generate(rng, tier, index)
    t["property"] = prop
    t["engine_version"] = ENGINE_VERSION
    t["verif_seed"] = seed
    t["run_index"] = index
    t["tier"] = tier
    return t


def _run_trace_here(prop, trace):
    env = (trace.get("config") or {}).get("import_env")
    if env and not os.environ.get("XSIM_IN_FRESH_IMPORT"):
        # this run asks for the code under test to be imported again under a modified environment
        def again():
            os.environ["XSIM_IN_FRESH_IMPORT"] = "1"
            return _run_trace_here(prop, trace)
        res = core.fresh_import_run(env, again)
        res.setdefault("counters", {})["config.fresh_import_under_env"] = 1
        return res
    eng = engine_for(prop)
    if hasattr(eng, "execute_for"):
        return eng.execute_for(prop, trace)
    return eng.execute(trace)


def _run_with_prelude_here(prop, trace):
    """a trace may carry a prelude: earlier runs of the same worker chunk whose left-over process state the
    violation depends on; they are executed first, in order, in the same process, and their verdicts ignored"""
    for pt in trace.get("prelude") or []:
        _run_trace_here(prop, pt)
    return _run_trace_here(prop, {k: v for k, v in trace.items() if k != "prelude"})


def run_trace(prop, trace):
    """one simulated run (with its prelude, if any), in its own forked child (see core.isolated)"""
    return core.isolated(_run_with_prelude_here, prop, trace)


def _gen_and_run(prop, seed, index, tier):
    tr = make_trace(prop, seed, index, tier)
    return tr, _run_trace_here(prop, tr)


def signature(v):
    return (v.get("clause"), v.get("site"))


CHUNK_SIZE = {"C05": 20, "C06": 20, "C19": 400, "C20": 250}


def _chunk(args):
    """a chunk of consecutive run indices, executed in a fresh child of the worker: what a run can see of earlier
    runs is then limited to the runs of its own chunk (fixed boundaries => reproducible from the seed alone)"""
    if getattr(engine_for(args[0]), "ISOLATE_RUNS", False):
        return _chunk_body(args)          # these engines already fork once per run
    return core.isolated(_chunk_body, args)


def _chunk_body(args):
    prop, seed, tier, indices, want_samples, want_eds = args
    faulthandler.enable()
    faulthandler.dump_traceback_later(CHUNK_WALL_LIMIT, exit=True)
    try:
        import array
        counters = {}
        viols = []
        known = {}
        samples = []
        extra = {}
        eds = {}
        tds = array.array("Q")
        h = hashlib.sha256()
        n = n_nt = n_ff = steps = 0
        eng = engine_for(prop)
        for i in indices:
            if getattr(eng, "ISOLATE_RUNS", False):
                tr, res = core.isolated(_gen_and_run, prop, seed, i, tier)
            else:
                tr, res = _gen_and_run(prop, seed, i, tier)
            td = core.digest({k: tr[k] for k in tr if k not in ("verif_seed", "run_index")})
            ed = core.digest(res["events"])[:16]
            h.update(("%d:%s;" % (i, ed)).encode())
            n += 1
            if res["nontrivial"]:
                n_nt += 1
                tds.append(int(td[:15], 16))
            if res.get("fault_free", False):
                n_ff += 1
            steps += int(res.get("steps", 0))
            if i in want_eds:
                eds[i] = ed
            for k, v in res["counters"].items():
                counters[k] = counters.get(k, 0) + v
            for k in res.get("known", []):
                known[k] = known.get(k, 0) + 1
            if res["violation"] is not None and len(viols) < 20:
                viols.append((i, res["violation"], tr))
            if i in want_samples:
                samples.append({"run_index": i, "trace": eng.sample_view(tr),
                                "events_digest": ed, "violation": res["violation"]})
            for k, v in res.get("sets", {}).items():
                extra.setdefault(k, set()).update(v)
        return {"first": indices[0], "n": n, "n_nt": n_nt, "n_ff": n_ff, "steps": steps, "tds": tds.tobytes(),
                "digest": h.hexdigest(), "eds": eds, "counters": counters, "viols": viols, "known": known,
                "samples": samples, "sets": {k: sorted(v) for k, v in extra.items()},
                "n_viol": sum(1 for _ in viols)}
    finally:
        faulthandler.cancel_dump_traceback_later()


def run_many(prop, seed, tier, indices, workers, want_eds=None):
    """-> merged result; independent of the worker count (fixed chunk boundaries, merged in index order)."""
    import array
    indices = list(indices)
    want = set(indices[:3])
    want_eds = set(indices) if want_eds is None and len(indices) <= 200 else set(want_eds or [])
    size = CHUNK_SIZE.get(prop, 100)
    chunks = [indices[i:i + size] for i in range(0, len(indices), size)]
    outs = []
    if workers <= 1:
        for c in chunks:
            outs.append(_chunk((prop, seed, tier, c, want, want_eds)))
    else:
        ctx = multiprocessing.get_context("fork")
        with ProcessPoolExecutor(max_workers=workers, mp_context=ctx) as ex:
            futs = [ex.submit(_chunk, (prop, seed, tier, c, want, want_eds)) for c in chunks]
            for f in futs:
                try:
                    outs.append(f.result(timeout=CHUNK_WALL_LIMIT + 60))
                except BrokenProcessPool:
                    raise core.HarnessError("worker process died (watchdog or crash)")
    counters = {}
    viols = []
    known = {}
    samples = []
    sets = {}
    eds = {}
    tds = array.array("Q")
    h = hashlib.sha256()
    n = n_nt = n_ff = steps = 0
    for o in outs:          # submission order == index order
        n += o["n"]
        n_nt += o["n_nt"]
        n_ff += o["n_ff"]
        steps += o["steps"]
        tds.frombytes(o["tds"])
        h.update(o["digest"].encode())
        eds.update(o["eds"])
        for k, v in o["counters"].items():
            counters[k] = counters.get(k, 0) + v
        for k, v in o["known"].items():
            known[k] = known.get(k, 0) + v
        viols.extend(o["viols"])
        samples.extend(o["samples"])
        for k, v in o["sets"].items():
            sets.setdefault(k, set()).update(v)
    viols.sort(key=lambda x: x[0])
    samples.sort(key=lambda s: s["run_index"])
    return {"n": n, "n_nontrivial": n_nt, "distinct_nontrivial": len(set(tds)), "n_ff": n_ff, "steps": steps,
            "eds": eds, "counters": dict(sorted(counters.items())), "viols": viols,
            "known": dict(sorted(known.items())), "samples": samples, "batch_digest": h.hexdigest(),
            "sets": {k: sorted(v) for k, v in sorted(sets.items())},
            "index_range": [indices[0], indices[-1]] if indices else []}


# ----------------------------------------------------------------------------- shrinking / replay
def reproduces(prop, trace, sig):
    try:
        v = run_trace(prop, trace)["violation"]
    except core.HarnessError:
        return False
    return v is not None and signature(v) == sig


def with_prelude(prop, seed, tier, index, trace, sig):
    """the violation of run `index` did not reproduce on its own: find the shortest suffix of the earlier runs of its
    chunk that, executed first in the same process, makes it reproduce"""
    size = CHUNK_SIZE.get(prop, 100)
    start = (index // size) * size
    earlier = [make_trace(prop, seed, j, tier) for j in range(start, index)]
    t = dict(trace)
    t["prelude"] = earlier
    if not earlier or not reproduces(prop, t, sig):
        return None
    # drop runs from the front, then one by one
    lo = 0
    step = max(1, len(earlier) // 2)
    while step >= 1:
        while lo + step <= len(earlier):
            t2 = dict(trace)
            t2["prelude"] = earlier[lo + step:]
            if reproduces(prop, t2, sig):
                lo += step
            else:
                break
        step //= 2
    keep = earlier[lo:]
    i = 0
    while i < len(keep) and len(keep) > 1:
        t2 = dict(trace)
        t2["prelude"] = keep[:i] + keep[i + 1:]
        if reproduces(prop, t2, sig):
            keep = keep[:i] + keep[i + 1:]
        else:
            i += 1
    t = dict(trace)
    t["prelude"] = keep
    return t


def shrink(prop, trace, sig, budget=400):
    eng = engine_for(prop)
    cur = trace
    tried = 0
    improved = True
    prelude = trace.get("prelude")
    while improved and tried < budget:
        improved = False
        for cand in eng.shrink_candidates({k: v for k, v in cur.items() if k != "prelude"}):
            if prelude:
                cand["prelude"] = prelude
            tried += 1
            if tried > budget:
                break
            try:
                res = run_trace(prop, cand)
            except core.HarnessError:
                continue
            v = res["violation"]
            if v is not None and signature(v) == sig and eng.trace_size(cand) < eng.trace_size(cur):
                cur = cand
                improved = True
                break
    return cur, tried


def write_replay(prop, trace, violation, shrunk_from=None):
    t = dict(trace)
    t["violation"] = violation
    if shrunk_from is not None:
        t["shrunk_from"] = shrunk_from
    d = core.digest(t)[:12]
    rdir = os.environ.get("XSIM_REPLAY_DIR") or os.path.join(core.VERIF_DIR, "replays")
    path = os.path.join(rdir, "%s-%s-%s.json" % (prop, trace.get("verif_seed", 0), d))
    os.makedirs(os.path.dirname(path), exist_ok=True)
    with open(path, "w") as f:
        json.dump(t, f, indent=1, sort_keys=True)
    return path


def replay(path):
    with open(path) as f:
        t = json.load(f)
    prop = t["property"]
    res = run_trace(prop, t)
    v = res["violation"]
    exp = t.get("violation")
    if t.get("prelude"):
        print("(replayed after a prelude of %d earlier run(s) in the same process)" % len(t["prelude"]))
    print("replay %s property=%s events_digest=%s" % (path, prop, core.digest(res["events"])[:16]))
    if v is None:
        print("no violation on this tree (recorded: %s)" % (exp and exp.get("clause")))
        return 0
    same = exp is None or signature(exp) == signature(v)
    print("violation reproduced%s: clause=%r site=%r detail=%r" % (
        "" if same else " (DIFFERENT signature from the recorded one)", v["clause"], v["site"], v.get("detail")))
    print("VIOLATION property=%s replay=%s" % (prop, path))
    return 1


# ----------------------------------------------------------------------------- the check
def check(prop, tier, runs=None, workers=None, start=0, evidence=True):
    t0 = time.time()
    seed = core.verif_seed()
    eng = engine_for(prop)
    core.import_xfab()
    if runs is None:
        runs = DEFAULT_RUNS[prop][tier]
    if workers is None:
        workers = min(16, os.cpu_count() or 1)
    print("xsim check property=%s tier=%s VERIF_SEED=%d runs=%d workers=%d src=%s" % (
        prop, tier, seed, runs, workers, core.xfab_src()))
    sys.stdout.flush()
    pre = eng.precheck(prop, seed, tier) if hasattr(eng, "precheck") else {"lines": [], "viols": [], "info": {}}
    indices = eng.indices(prop, tier, runs, start) if hasattr(eng, "indices") else range(start, start + runs)
    indices = list(indices)
    if getattr(eng, "ISOLATE_RUNS", False):
        sample_idx = indices[:: max(1, len(indices) // 24)][:24]
    else:
        # runs of one chunk share a process, so benign process-lifetime state of the code under test (lazy
        # initialisation, warm caches) may legitimately make a run depend on its predecessors in the chunk: the
        # determinism probes therefore re-execute WHOLE chunks (the first and a middle one), like with like
        size = CHUNK_SIZE.get(prop, 100)
        nch = (len(indices) + size - 1) // size
        picks = sorted(set([0, nch // 2]))
        sample_idx = [i for c in picks for i in indices[c * size:(c + 1) * size]]
    merged = run_many(prop, seed, tier, indices, workers, want_eds=sample_idx)
    # determinism self-test on a small sample, every run: same index twice in this process
    again = run_many(prop, seed, tier, sample_idx, 1, want_eds=sample_idx)
    first = merged["eds"]
    nondet = [i for i in sample_idx if again["eds"].get(i) != first.get(i)]
    if nondet and not merged["viols"]:
        raise core.HarnessError("non-deterministic replay of run indices %s" % nondet[:5])
    if nondet:
        print("note: %d sampled runs differ when re-executed on their own (expected when state of the code under test "
              "outlives a history; the violations below carry the earlier runs they need)" % len(nondet))
    # ... and once more in a fresh interpreter under another hash seed
    import subprocess
    env = dict(os.environ, PYTHONHASHSEED="random", VERIF_SEED=str(seed))
    pr = subprocess.run([sys.executable, os.path.join(core.VERIF_DIR, "xsim_main.py"), "_digests", prop, tier,
                         ",".join(str(i) for i in sample_idx)], env=env, stdout=subprocess.PIPE, stderr=subprocess.PIPE,
                        timeout=CHUNK_WALL_LIMIT)
    try:
        fresh = json.loads(pr.stdout.decode().strip().splitlines()[-1])
    except Exception:
        raise core.HarnessError("fresh-interpreter determinism probe failed: %s" % pr.stderr.decode()[-500:])
    nondet = [i for i in sample_idx if fresh.get(str(i)) != first.get(i)]
    if nondet and not merged["viols"]:
        raise core.HarnessError("non-deterministic across interpreters: run indices %s" % nondet[:5])
    viol_lines = []
    replay_paths = []
    seen = set()
    for (i, v, tr) in merged["viols"]:
        sig = signature(v)
        if sig in seen:
            continue
        seen.add(sig)
        if len(seen) > 4:
            break
        if not reproduces(prop, tr, sig):
            # seen in a worker, not reproducible from a clean process: it depends on what earlier runs of the same
            # chunk left behind in the process; carry those runs along as a prelude
            tp = with_prelude(prop, seed, tier, i, tr, sig)
            if tp is not None:
                print("note: run %d violates only after %d earlier run(s) of its chunk in the same process (state that "
                      "outlives a history); they are kept as the replay's prelude" % (i, len(tp["prelude"])))
                tr = tp
        small, tried = shrink(prop, tr, sig)
        try:
            res = run_trace(prop, small)
        except core.HarnessError:
            res = {"violation": None}
        vv = res["violation"] or v
        path = write_replay(prop, small, vv, shrunk_from={"run_index": i, "ops": eng.trace_size(tr)[0],
                                                          "candidates_tried": tried})
        # a replay file must reproduce in a fresh interpreter; say so loudly if it does not
        import subprocess
        rp = subprocess.run([sys.executable, os.path.join(core.VERIF_DIR, "xsim_main.py"), "replay", path],
                            env=dict(os.environ, PYTHONHASHSEED="random"), stdout=subprocess.PIPE, stderr=subprocess.STDOUT,
                            timeout=CHUNK_WALL_LIMIT)
        if rp.returncode != 1:
            print("HARNESS-WARNING: %s does not reproduce in a fresh interpreter (rc=%d): the violation depends on state "
                  "outside the trace" % (path, rp.returncode))
        replay_paths.append(path)
        viol_lines.append("VIOLATION property=%s replay=%s" % (prop, path))
        print("violation run_index=%d clause=%r site=%r detail=%r (shrunk %s -> %s)" % (
            i, vv["clause"], vv["site"], vv.get("detail"), eng.trace_size(tr), eng.trace_size(small)))
    for (v, tr) in pre["viols"]:
        path = write_replay(prop, tr, v)
        replay_paths.append(path)
        viol_lines.append("VIOLATION property=%s replay=%s" % (prop, path))
        print("violation (precheck) clause=%r site=%r detail=%r" % (v["clause"], v["site"], v.get("detail")))
    for ln in pre["lines"]:
        print(ln)
    for fid in merged["known"]:
        if not pre.get("info", {}).get(fid + ".printed"):
            for f in core.findings_for(prop):
                if f["id"] == fid:
                    print("KNOWN-FINDING: property=%s %s %s" % (prop, f["id"], f["what"]))
    wall = time.time() - t0
    nrun = merged["n"]
    distinct_nt = merged["distinct_nontrivial"]
    n_ff = merged["n_ff"]
    steps = merged["steps"]
    cov = {
        "evaluations": nrun,
        "distinct_nontrivial": distinct_nt,
        "rule": eng.RULE,
        "samples": merged["samples"][:3],
        "exhaustive": False,
        "runs_per_hour": int(nrun / wall * 3600) if wall > 0 else 0,
        "seeds_per_hour": int(nrun / wall * 3600) if wall > 0 else 0,
        "simulated_time": {"unit": "logical steps (xfab reads no clock; the step counter is the only time axis)",
                           "steps": steps},
        "fault_free_runs": n_ff,
        "fault_injecting_runs": nrun - n_ff,
        "nontrivial_runs": merged["n_nontrivial"],
        "counters": merged["counters"],
        "known_findings_hit": merged["known"],
        "batch_digest": merged["batch_digest"],
        "determinism_sample": {"indices_rerun_same_process": len(sample_idx), "indices_rerun_fresh_interpreter_other_hashseed": len(sample_idx), "mismatches": 0},
        "workers": workers,
        "run_index_range": merged["index_range"],
        "xfab_file": os.path.join(os.path.realpath(core.xfab_src()), "xfab", "__init__.py"),
        "violating_runs": len(merged["viols"]),
        "replays": replay_paths,
    }
    if hasattr(eng, "coverage_extra"):
        cov.update(eng.coverage_extra(prop, merged, pre))
    ev = {
        "property_id": prop, "tier": tier, "seed": seed, "level": "exploration",
        "coverage": cov,
        "assumptions": eng.assumptions(prop) if hasattr(eng, "assumptions") else [],
        "wall_s": round(wall, 3),
        "violations": len(viol_lines),
    }
    if evidence:
        p = os.path.join(core.VERIF_DIR, "evidence", "%s.json" % prop)
        os.makedirs(os.path.dirname(p), exist_ok=True)
        with open(p, "w") as f:
            json.dump(ev, f, indent=1, sort_keys=True)
    print("runs=%d distinct_nontrivial=%d fault_free=%d steps=%d wall=%.1fs batch_digest=%s" % (
        nrun, distinct_nt, n_ff, steps, wall, merged["batch_digest"][:16]))
    for ln in viol_lines:
        print(ln)
    sys.stdout.flush()
    return 1 if viol_lines else 0


def main(argv):
    import argparse
    try:
        if argv and argv[0] == "replay":
            core.import_xfab()
            return replay(argv[1])
        if argv and argv[0] == "_digests":
            core.import_xfab()
            prop, tier, idx = argv[1], argv[2], [int(x) for x in argv[3].split(",") if x]
            r = run_many(prop, core.verif_seed(), tier, idx, 1, want_eds=idx)
            print(json.dumps({str(k): v for k, v in r["eds"].items()}))
            return 0
        if argv and argv[0] == "selftest":
            from . import selftest
            return selftest.main(argv[1:])
        ap = argparse.ArgumentParser()
        ap.add_argument("prop", choices=sorted(ENGINES))
        ap.add_argument("--tier", default=os.environ.get("VERIF_TIER", "quick"), choices=["quick", "thorough"])
        ap.add_argument("--runs", type=int, default=None)
        ap.add_argument("--workers", type=int, default=None)
        ap.add_argument("--start", type=int, default=0)
        ap.add_argument("--no-evidence", action="store_true")
        a = ap.parse_args(argv)
        return check(a.prop, a.tier, a.runs, a.workers, a.start, evidence=not a.no_evidence)
    except core.HarnessError as e:
        print("HARNESS-ERROR: %s" % e)
        traceback.print_exc()
        return 2
    except Exception as e:  # noqa
        print("HARNESS-ERROR: unexpected %s: %s" % (type(e).__name__, e))
        traceback.print_exc()
        return 2
