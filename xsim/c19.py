"""C19 -- parameters objects: API histories against a dictionary model, and
save/load on the real CPython text/buffered I/O stack over a simulated raw disk
that injects ENOSPC, EIO, short writes, EINTR, failing close, short reads,
ENOENT/EACCES and a competing writer.
"""
import builtins
import copy
import errno
import io
import logging
import math

from . import core

PROPERTY = "C19"
SIM_PREFIX = "/xsim-disk/"
FAKE_FD_BASE = 1 << 20

NAMES = ["a", "b", "c", "cell__a", "cell-b", "t-x", "t_y", "wavelength", "o11", "o-12",
         "fit-tolerance", "z", "Y", "distance", "y-center", "tilt_x", "chi", "no-bins", "p.q",
         "k9"]
STR_PLAIN = ["P21/c", "x=y", "0x10", "-", "abc", "Fm-3m", "1,5", "True", "None", "#c", "a-b",
             "file.par", "e", "--5", "1e", "1.2.3", "1/2", "0b1", "five", "_1",
             "\u03b1-Fe", "\u00c5", "H\u2082O", "caf\u00e9", "\u65e5\u672c", "\u03a9/2", "\u00b5m", "\u20ac\u20ac"]
STR_NUMERIC = ["12", "007", "+5", "5.", "1e5", "1_0", "inf", "1e400", "-0", "-0.0", ".5", "1E-3",
               "-12", "0", "3.25", "Infinity", "-inf", "1e22", "9007199254740993", "0.1",
               "1" + "0" * 320, "-" + "9" * 400]
# space-free strings that look like ENCODINGS of separators: exactly what an escaping / quoting layer (added later by
# somebody) gets wrong; a uniform sampler would need ~1e-6 luck per character to produce one
STR_ESCAPES = ["my%20data", "%20", "a%0Ab", "50%", "%s_%d", "%%", "a\\nb", "a\\tb", "\\x20", "\\u0020", "a\\\\b", "&nbsp;",
               "a&amp;b", "a+b", "${HOME}", "$x", "~", "a;b", "a#b", "#", "'q'", '"q"', "a,b", "a:b", "[1]", "{x}", "a|b",
               "a*b", "a?b", "a=b=c", "<x>", "`x`", "a\\", "!", "@file", "\\"]
FLOAT_SPECIAL = [-0.0, 0.0, 5.0, 1e22, 5e-324, float("inf"), float("-inf"), 1.0 / 3.0, 1e-7,
                 123456789.123, 2.2250738585072014e-308, 1.7976931348623157e308, -1.5, 1e16, 0.1]
BUFSIZES = [1, 2, 7, 16, 64, 512, 8192]


# ----------------------------------------------------------------------------- values
def enc(v):
    if isinstance(v, bool):
        raise core.HarnessError("bool is outside the quantifier")
    if isinstance(v, int):
        return ["i", str(v)]
    if isinstance(v, float):
        return ["f", v.hex()]
    if isinstance(v, str):
        return ["s", v]
    raise core.HarnessError("cannot encode %r" % (v,))


def dec(t):
    if t[0] == "i":
        return int(t[1])
    if t[0] == "f":
        return float.fromhex(t[1])
    return t[1]


def same(a, b):
    """type-and-bit exact equality"""
    if type(a) is not type(b):
        return False
    if isinstance(a, float):
        if a != a or b != b:
            return a != a and b != b
        return core.float_bits(a) == core.float_bits(b)
    return a == b


def coerce(s):
    """what the statement says a string becomes on load: int if it parses as int, else float if it
    parses as float, else the string itself"""
    try:
        return int(s)
    except ValueError:
        pass
    try:
        return float(s)
    except ValueError:
        return s


def load_value(v):
    """value obtained by loading a file in which `v` was saved"""
    if isinstance(v, str):
        return coerce(v)
    return v


def numeric_looking(v):
    return isinstance(v, str) and not isinstance(coerce(v), str)


def gen_value(rng, allow_numeric_str=True):
    k = rng.weighted([("int", 12), ("float", 12), ("fspecial", 8), ("str", 12), ("numstr", 8 if allow_numeric_str else 0),
                      ("longstr", 1)])
    if k == "longstr":
        # one value longer than any I/O buffer or read block
        n = rng.choice([3000, 5000, 8191, 8192, 9000, 17000, 33000, 70000])
        return rng.choice(["sample_", "x", "P1_", "#"]) + rng.choice(["x", "ab", "0_", "q/"]) * (n // 2)
    if k == "int":
        m = rng.below(6)
        if m == 0:
            return rng.between(-9, 9)
        if m == 1:
            return rng.between(-10 ** 6, 10 ** 6)
        if m == 2:
            return (1 << rng.between(50, 1400)) + rng.between(-3, 3)
        if m == 3:
            return -(1 << rng.between(50, 1400)) + rng.between(-3, 3)
        if m == 4:
            return rng.bits(64)
        return 10 ** rng.between(1, 400)
    if k == "float":
        while True:
            import struct
            x = struct.unpack("<d", struct.pack("<Q", rng.bits(64)))[0]
            if x == x and abs(x) != float("inf"):
                return x
    if k == "fspecial":
        return rng.choice(FLOAT_SPECIAL)
    if k == "str":
        return rng.choice(STR_ESCAPES) if rng.chance(0.3) else rng.choice(STR_PLAIN)
    return rng.choice(STR_NUMERIC)


# ----------------------------------------------------------------------------- simulated disk
class Disk(object):
    def __init__(self):
        self.files = {}          # path -> bytearray
        self.capacity = None     # total bytes, None = unlimited
        self.plan = []           # decisions consumed by raw calls of the current op
        self.open_err = None
        self.close_fail = False
        self.fired = {}
        self.unrecoverable = False
        self.in_close = False
        self.open_raws = []
        self.bufsize = 8192
        self.chunk = 8192
        self.raw_calls = 0
        self.replace_at = None   # raw read index at which a competing writer replaces the file
        self.replace_with = None
        self.replaced = None
        self.raw_reads = 0
        self.crash_at = None     # raw write index before which the process "crashes"
        self.frozen = False      # after a crash nothing reaches the disk any more
        self.raw_writes = 0

    def used(self):
        return sum(len(v) for v in self.files.values())

    def fire(self, kind):
        self.fired[kind] = self.fired.get(kind, 0) + 1

    def arm(self, io_plan):
        io_plan = io_plan or {}
        self.plan = list(io_plan.get("plan", []))
        self.capacity = io_plan.get("capacity")
        self.open_err = io_plan.get("open_err")
        self.close_fail = bool(io_plan.get("close_fail"))
        self.crash_at = io_plan.get("crash_at")
        self.raw_writes = 0
        self.raw_reads = 0
        self.replaced = None
        self.replace_at = io_plan.get("replace_at")
        self.replace_with = None
        if self.replace_at is not None and io_plan.get("replace_with"):
            snap = [(k, dec(v)) for k, v in sorted(io_plan["replace_with"].items())]
            self.replace_with = ("".join("%s %s\n" % (k, str(v)) for k, v in snap).encode("utf-8"), snap)
        self.fired = {}
        self.unrecoverable = False
        self.in_close = False
        self.raw_calls = 0

    def disarm(self):
        self.arm(None)

    def next_decision(self):
        self.raw_calls += 1
        if self.plan:
            return self.plan.pop(0)
        return "ok"


def _sim_oserror(cls, *args):
    e = cls(*args)
    e._xsim = True
    return e


class SimCrash(BaseException):
    """the simulated process dies here: user-space buffers are lost, the disk keeps what it has"""


class SimRaw(io.RawIOBase):
    def __init__(self, disk, path, mode, plus=False):
        io.RawIOBase.__init__(self)
        self.disk = disk
        self.path = path
        self._w = mode in ("w", "a") or plus
        self._r = mode == "r" or plus
        self._append = mode == "a"
        self.pos = 0
        self.name = path
        self.mode = ("rb+" if plus else "rb") if mode == "r" else (mode + "b" + ("+" if plus else ""))
        if mode == "w":
            disk.files[path] = bytearray()
        elif mode == "a":
            disk.files.setdefault(path, bytearray())
        # an open handle refers to the file (inode) it opened: a competing writer that replaces the path
        # (write-new-then-rename) does not change what this handle reads
        self.buf = disk.files.get(path)
        disk.next_fd = getattr(disk, "next_fd", FAKE_FD_BASE) + 1
        self._fd = disk.next_fd
        if not hasattr(disk, "fds"):
            disk.fds = {}
        disk.fds[self._fd] = self

    def readable(self):
        return self._r

    def writable(self):
        return self._w

    def seekable(self):
        return True

    def fileno(self):
        return self._fd

    def isatty(self):
        return False

    def tell(self):
        return self.pos

    def seek(self, offset, whence=0):
        if whence == 0:
            np_ = offset
        elif whence == 1:
            np_ = self.pos + offset
        else:
            np_ = len(self.buf) + offset
        if np_ < 0:
            raise _sim_oserror(OSError, errno.EINVAL, "negative seek position")
        self.pos = np_
        return self.pos

    def truncate(self, size=None):
        if not self._w:
            raise io.UnsupportedOperation("truncate")
        if size is None:
            size = self.pos
        if size < len(self.buf):
            del self.buf[size:]
        else:
            self.buf.extend(b"\0" * (size - len(self.buf)))
        return size

    def write(self, b):
        d = self.disk
        if d.frozen:
            raise _sim_oserror(OSError, errno.EIO, "process crashed (simulated): no further I/O")
        if d.crash_at is not None and d.raw_writes >= d.crash_at:
            d.frozen = True
            d.fire("crash_mid_save")
            raise SimCrash()
        d.raw_writes += 1
        dec_ = d.next_decision()
        phase = "close" if d.in_close else "write"
        while dec_ == "eintr":
            # a signal interrupts the system call; like io.FileIO and os.write (PEP 475) the raw layer retries, so the
            # interruption is invisible above it (it only changes which decision the retried call meets)
            d.fire("eintr_write")
            dec_ = d.next_decision()
        if dec_ == "eio":
            d.fire("eio_write")
            d.fire("surfaced_in_" + phase)
            d.unrecoverable = True
            raise _sim_oserror(OSError, errno.EIO, "simulated EIO on write")
        n = len(b)
        if isinstance(dec_, list) and dec_[0] == "short":
            if dec_[1] < n:
                d.fire("short_write")
            n = max(1, min(n, dec_[1]))
        if self._append:
            self.pos = len(self.buf)
        if d.capacity is not None:
            grow = max(0, self.pos + n - len(self.buf))
            room = d.capacity - d.used()
            if grow > 0 and room <= 0:
                d.fire("enospc")
                d.fire("surfaced_in_" + phase)
                d.unrecoverable = True
                raise _sim_oserror(OSError, errno.ENOSPC, "simulated ENOSPC")
            if grow > room:
                n -= grow - room
                if n <= 0:
                    d.fire("enospc")
                    d.fire("surfaced_in_" + phase)
                    d.unrecoverable = True
                    raise _sim_oserror(OSError, errno.ENOSPC, "simulated ENOSPC")
                d.fire("enospc_partial")
        if self.pos > len(self.buf):
            self.buf.extend(b"\0" * (self.pos - len(self.buf)))
        self.buf[self.pos:self.pos + n] = bytes(b[:n])
        self.pos += n
        return n

    def readinto(self, b):
        d = self.disk
        dec_ = d.next_decision()
        while dec_ == "eintr":
            d.fire("eintr_read")
            dec_ = d.next_decision()
        if dec_ == "eio":
            d.fire("eio_read")
            d.unrecoverable = True
            raise _sim_oserror(OSError, errno.EIO, "simulated EIO on read")
        if d.replace_at is not None and d.raw_reads == d.replace_at and d.replace_with is not None:
            # the competing writer replaces the file while we are in the middle of reading it
            d.files[self.path] = bytearray(d.replace_with[0])
            d.replaced = d.replace_with[1]
            d.replace_with = None
            d.fire("replaced_during_read")
        d.raw_reads += 1
        data = self.buf
        n = min(len(b), len(data) - self.pos)
        if isinstance(dec_, list) and dec_[0] == "short" and n > 0:
            if dec_[1] < n:
                d.fire("short_read")
            n = max(1, min(n, dec_[1]))
        b[:n] = data[self.pos:self.pos + n]
        self.pos += n
        return n

    def close(self):
        if self.closed:
            return
        d = self.disk
        io.RawIOBase.close(self)
        getattr(d, "fds", {}).pop(self._fd, None)
        if self in d.open_raws:
            d.open_raws.remove(self)
        if self._w and d.close_fail and not d.frozen:
            d.close_fail = False
            d.fire("close_fail")
            d.unrecoverable = True
            raise _sim_oserror(OSError, errno.EIO, "simulated EIO on close")


class SimText(io.TextIOWrapper):
    """the real TextIOWrapper; only notes when close() starts (reach probe)"""
    _disk = None

    def close(self):
        if self._disk is not None:
            self._disk.in_close = True
        try:
            io.TextIOWrapper.close(self)
        finally:
            if self._disk is not None:
                self._disk.in_close = False


def make_open(disk, real_open):
    def sim_open(file, mode="r", buffering=-1, encoding=None, errors=None, newline=None,
                 closefd=True, opener=None):
        try:
            path = file if isinstance(file, str) else (file.decode() if isinstance(file, bytes) else
                                                       str(getattr(file, "__fspath__", lambda: file)()))
        except Exception:
            path = None
        raw_given = None
        if opener is not None and not isinstance(file, int):
            # open(path, opener=...): the opener produces the descriptor (tempfile does this); if it hands back one of
            # the simulated disk's descriptors, continue with that
            import os as _os_
            fl = {"r": _os_.O_RDONLY, "w": _os_.O_WRONLY | _os_.O_CREAT | _os_.O_TRUNC,
                  "a": _os_.O_WRONLY | _os_.O_CREAT | _os_.O_APPEND,
                  "x": _os_.O_WRONLY | _os_.O_CREAT | _os_.O_EXCL}[mode.replace("b", "").replace("t", "").replace("+", "")[:1] or "r"]
            if "+" in mode:
                fl = (fl & ~_os_.O_WRONLY) | _os_.O_RDWR
            fd_ = opener(file, fl)
            if fd_ in getattr(disk, "fds", {}):
                file = fd_
            else:
                return real_open(fd_, mode, buffering, encoding, errors, newline, True, None)
        if isinstance(file, int) and not isinstance(file, bool) and file in getattr(disk, "fds", {}):
            raw_given = disk.fds[file]
            path = raw_given.path
        elif not (isinstance(path, str) and path.startswith(SIM_PREFIX)):
            return real_open(file, mode, buffering, encoding, errors, newline, closefd, opener)
        m = mode.replace("t", "").replace("U", "")
        binary = "b" in m
        m = m.replace("b", "")
        plus = "+" in m
        m = m.replace("+", "")
        if m not in ("r", "w", "a", "x"):
            raise core.HarnessError("simulated disk: unsupported open mode %r" % mode)
        if raw_given is not None:
            raw = raw_given
            bs = disk.bufsize if buffering in (-1, None) else buffering
            if bs == 0:
                return raw
            if plus or (raw.readable() and raw.writable() and m == "r"):
                buf = io.BufferedRandom(raw, max(1, bs)) if raw.readable() and raw.writable() else (
                    io.BufferedWriter(raw, max(1, bs)) if raw.writable() else io.BufferedReader(raw, max(1, bs)))
            else:
                buf = io.BufferedReader(raw, max(1, bs)) if m == "r" else io.BufferedWriter(raw, max(1, bs))
            if binary:
                return buf
            t = SimText(buf, encoding or "utf-8", errors, newline, buffering == 1)
            t._disk = disk
            t.mode = mode
            try:
                t._CHUNK_SIZE = max(1, disk.chunk)
            except Exception:
                pass
            return t
        if disk.open_err:
            e = disk.open_err
            disk.open_err = None
            disk.fire("open_" + e.lower())
            disk.unrecoverable = True
            raise _sim_oserror(OSError, getattr(errno, e), "simulated " + e, path)
        if m == "r" and path not in disk.files:
            raise _sim_oserror(FileNotFoundError, errno.ENOENT, "No such file or directory (simulated disk)", path)
        if m == "x":
            if path in disk.files:
                raise _sim_oserror(FileExistsError, errno.EEXIST, "File exists (simulated disk)", path)
            m = "w"
        raw = SimRaw(disk, path, m, plus)
        disk.open_raws.append(raw)
        bs = disk.bufsize if buffering in (-1, None) else buffering
        if bs == 0 and not binary:
            raise ValueError("can't have unbuffered text I/O")
        if bs == 0:
            return raw
        if plus:
            buf = io.BufferedRandom(raw, max(1, bs))
        else:
            buf = io.BufferedReader(raw, max(1, bs)) if m == "r" else io.BufferedWriter(raw, max(1, bs))
        if binary:
            return buf
        t = SimText(buf, encoding or "utf-8", errors, newline, buffering == 1)
        t._disk = disk
        t.mode = mode
        try:
            t._CHUNK_SIZE = max(1, disk.chunk)
        except Exception:
            pass
        return t
    return sim_open


def make_os_seams(disk):
    """name -> replacement for the os / os.path functions a save or load might consult; paths outside the simulated
    disk are delegated to the real functions"""
    import os
    import stat as _stat
    real = {"exists": os.path.exists, "isfile": os.path.isfile, "getsize": os.path.getsize, "remove": os.remove,
            "unlink": os.unlink, "rename": os.rename, "replace": os.replace, "stat": os.stat, "lstat": os.lstat,
            "access": os.access, "chmod": os.chmod, "utime": os.utime, "islink": os.path.islink,
            "isdir": os.path.isdir, "lexists": os.path.lexists, "fsync": os.fsync, "fdatasync": os.fdatasync}
    if hasattr(os, "chown"):
        real["chown"] = os.chown

    def sim(pth):
        try:
            pth = os.fspath(pth)
        except TypeError:
            return None
        if isinstance(pth, bytes):
            pth = pth.decode()
        return pth if isinstance(pth, str) and pth.startswith(SIM_PREFIX) else None

    def exists(pth):
        q = sim(pth)
        return (q in disk.files) if q is not None else real["exists"](pth)

    def isfile(pth):
        q = sim(pth)
        return (q in disk.files) if q is not None else real["isfile"](pth)

    def getsize(pth):
        q = sim(pth)
        if q is None:
            return real["getsize"](pth)
        if q not in disk.files:
            raise _sim_oserror(FileNotFoundError, errno.ENOENT, "No such file or directory (simulated disk)", q)
        return len(disk.files[q])

    def remove(pth, *a, **k):
        q = sim(pth)
        if q is None:
            return real["remove"](pth, *a, **k)
        if q not in disk.files:
            raise _sim_oserror(FileNotFoundError, errno.ENOENT, "No such file or directory (simulated disk)", q)
        del disk.files[q]

    def rename(src, dst, *a, **k):
        qs, qd = sim(src), sim(dst)
        if qs is None and qd is None:
            return real["rename"](src, dst, *a, **k)
        if qs is None or qd is None:
            raise _sim_oserror(OSError, errno.EXDEV, "cross-device link (simulated disk)")
        if qs not in disk.files:
            raise _sim_oserror(FileNotFoundError, errno.ENOENT, "No such file or directory (simulated disk)", qs)
        disk.files[qd] = disk.files.pop(qs)

    def stat(pth, *a, **k):
        q = sim(pth)
        if q is None:
            return real["stat"](pth, *a, **k)
        if q not in disk.files:
            raise _sim_oserror(FileNotFoundError, errno.ENOENT, "No such file or directory (simulated disk)", q)
        return os.stat_result((_stat.S_IFREG | 0o644, 1, 1, 1, 0, 0, len(disk.files[q]), 0, 0, 0))

    def access(pth, mode, *a, **k):
        q = sim(pth)
        return (q in disk.files) if q is not None else real["access"](pth, mode, *a, **k)

    def noop_on_file(name):
        def f(pth, *a, **k):
            q = sim(pth) if not isinstance(pth, int) else None
            if q is None:
                return real[name](pth, *a, **k)
            if q not in disk.files:
                raise _sim_oserror(FileNotFoundError, errno.ENOENT, "No such file or directory (simulated disk)", q)
            return None
        return f

    def islink(pth):
        return False if sim(pth) is not None else real["islink"](pth)

    def isdir(pth):
        q = sim(pth)
        if q is None:
            return real["isdir"](pth) or os.fspath(pth).rstrip("/") + "/" == SIM_PREFIX
        return False

    def fsync_like(name):
        def f(fd):
            if isinstance(fd, int) and fd >= FAKE_FD_BASE:
                disk.fire("fsync_called")
                return None
            return real[name](fd)
        return f

    real.update({"open": os.open, "close": os.close, "write": os.write, "read": os.read, "fstat": os.fstat,
                 "ftruncate": os.ftruncate, "lseek": os.lseek})
    for _n in ("pwrite", "pread", "posix_fallocate", "posix_fadvise"):
        if hasattr(os, _n):
            real[_n] = getattr(os, _n)

    def fds():
        if not hasattr(disk, "fds"):
            disk.fds = {}
        return disk.fds

    def os_open(pth, flags, mode=0o777, *a, **k):
        q = sim(pth)
        if q is None:
            return real["open"](pth, flags, mode, *a, **k)
        if disk.open_err:
            e = disk.open_err
            disk.open_err = None
            disk.fire("open_" + e.lower())
            disk.unrecoverable = True
            raise _sim_oserror(OSError, getattr(errno, e), "simulated " + e, q)
        acc = flags & os.O_ACCMODE
        present = q in disk.files
        if not present and not (flags & os.O_CREAT):
            raise _sim_oserror(FileNotFoundError, errno.ENOENT, "No such file or directory (simulated disk)", q)
        if present and (flags & os.O_CREAT) and (flags & os.O_EXCL):
            raise _sim_oserror(FileExistsError, errno.EEXIST, "File exists (simulated disk)", q)
        if not present:
            disk.files[q] = bytearray()
        if acc == os.O_RDONLY:
            raw = SimRaw(disk, q, "r", False)
        else:
            rw = acc == os.O_RDWR
            if flags & os.O_TRUNC:
                raw = SimRaw(disk, q, "w", rw)
            elif flags & os.O_APPEND:
                raw = SimRaw(disk, q, "a", rw)
            else:
                raw = SimRaw(disk, q, "r", True)
                if not rw:
                    raw._r = False
        disk.open_raws.append(raw)
        return raw.fileno()

    def os_close(fd):
        r = fds().get(fd) if isinstance(fd, int) else None
        return r.close() if r is not None else real["close"](fd)

    def os_write(fd, data):
        r = fds().get(fd) if isinstance(fd, int) else None
        return r.write(data) if r is not None else real["write"](fd, data)

    def os_read(fd, n):
        r = fds().get(fd) if isinstance(fd, int) else None
        if r is None:
            return real["read"](fd, n)
        b = bytearray(n)
        k_ = r.readinto(b)
        return bytes(b[:k_])

    def os_fstat(fd):
        r = fds().get(fd) if isinstance(fd, int) else None
        if r is None:
            return real["fstat"](fd)
        return os.stat_result((_stat.S_IFREG | 0o644, 1, 1, 1, 0, 0, len(r.buf), 0, 0, 0))

    def os_ftruncate(fd, size):
        r = fds().get(fd) if isinstance(fd, int) else None
        return r.truncate(size) if r is not None else real["ftruncate"](fd, size)

    def os_lseek(fd, pos, how):
        r = fds().get(fd) if isinstance(fd, int) else None
        return r.seek(pos, how) if r is not None else real["lseek"](fd, pos, how)

    def os_pwrite(fd, data, offset):
        r = fds().get(fd) if isinstance(fd, int) else None
        if r is None:
            return real["pwrite"](fd, data, offset)
        keep = r.pos
        r.pos = offset
        try:
            return r.write(data)
        finally:
            r.pos = keep

    def os_pread(fd, n, offset):
        r = fds().get(fd) if isinstance(fd, int) else None
        if r is None:
            return real["pread"](fd, n, offset)
        keep = r.pos
        r.pos = offset
        try:
            b = bytearray(n)
            k_ = r.readinto(b)
            return bytes(b[:k_])
        finally:
            r.pos = keep

    def os_fallocate(fd, offset, length):
        r = fds().get(fd) if isinstance(fd, int) else None
        if r is None:
            return real["posix_fallocate"](fd, offset, length)
        need = offset + length - len(r.buf)
        if need > 0:
            if disk.capacity is not None and disk.used() + need > disk.capacity:
                disk.fire("enospc")
                disk.unrecoverable = True
                raise _sim_oserror(OSError, errno.ENOSPC, "simulated ENOSPC")
            r.buf.extend(b"\0" * need)

    def os_fadvise(fd, *a):
        r = fds().get(fd) if isinstance(fd, int) else None
        return None if r is not None else real["posix_fadvise"](fd, *a)

    for _n in ("writev", "readv"):
        if hasattr(os, _n):
            real[_n] = getattr(os, _n)

    def os_writev(fd, buffers):
        r = fds().get(fd) if isinstance(fd, int) else None
        if r is None:
            return real["writev"](fd, buffers)
        total = 0
        for b in buffers:
            b = bytes(b)
            k_ = r.write(b)
            total += k_
            if k_ < len(b):
                break
        return total

    def os_readv(fd, buffers):
        r = fds().get(fd) if isinstance(fd, int) else None
        if r is None:
            return real["readv"](fd, buffers)
        total = 0
        for b in buffers:
            k_ = r.readinto(b)
            total += k_
            if k_ < len(b):
                break
        return total

    extra = {}
    if "writev" in real:
        extra.update({"writev": os_writev, "readv": os_readv})
    if "pwrite" in real:
        extra.update({"pwrite": os_pwrite, "pread": os_pread})
    if "posix_fallocate" in real:
        extra["posix_fallocate"] = os_fallocate
    if "posix_fadvise" in real:
        extra["posix_fadvise"] = os_fadvise
    out = {"open": os_open, "close": os_close, "write": os_write, "read": os_read, "fstat": os_fstat,
           "ftruncate": os_ftruncate, "lseek": os_lseek,
           "exists": exists, "isfile": isfile, "getsize": getsize, "remove": remove, "unlink": remove,
           "rename": rename, "replace": rename, "stat": stat, "lstat": stat, "access": access,
           "chmod": noop_on_file("chmod"), "utime": noop_on_file("utime"), "islink": islink, "isdir": isdir,
           "lexists": exists, "fsync": fsync_like("fsync"), "fdatasync": fsync_like("fdatasync")}
    if "chown" in real:
        out["chown"] = noop_on_file("chown")
    out.update(extra)
    return real, out


PATH_FUNCS = ("exists", "isfile", "getsize", "islink", "isdir", "lexists")


# ----------------------------------------------------------------------------- generator
def gen_plan(rng, side, kinds, names=None, numstr=True):
    """io plan for one save/load; kinds = enabled fault kinds of this run"""
    p = {}
    if side == "r" and names and "foreign" in kinds and rng.chance(0.2):
        # a competing writer replaces the file while it is being read (possibly combined with the faults below)
        p["replace_at"] = rng.choice([0, 0, 1, 1, 2, 3])
        p["replace_with"] = {nm: enc(gen_value(rng, numstr)) for nm in rng.sample(names, rng.between(1, min(5, len(names))))}
        if rng.chance(0.5):
            # ... and the read fails right afterwards with a transient-looking error
            p["plan"] = ["ok"] * p["replace_at"] + [["short", rng.choice([3, 7, 11, 20])], rng.choice(["eio", "eintr", "eio"])]
            return p
    if not kinds or rng.chance(0.35):
        return p
    plan = []
    n = rng.between(1, 12)
    eintr = 0
    for _ in range(n):
        r = rng.below(10)
        if "short" in kinds and r < 4:
            plan.append(["short", rng.choice([1, 1, 2, 3, 5, 17])])
        elif "eintr" in kinds and r < 6 and eintr < 3:
            plan.append("eintr")
            eintr += 1
        elif "eio" in kinds and r == 6 and rng.chance(0.3):
            plan.append("eio")
        else:
            plan.append("ok")
    p["plan"] = plan
    if side == "w":
        if "enospc" in kinds and rng.chance(0.4):
            p["capacity"] = rng.choice([0, 1, rng.between(2, 40), rng.between(10, 400), rng.between(100, 3000)])
        if "close_fail" in kinds and rng.chance(0.15):
            p["close_fail"] = True
        if "open_err" in kinds and rng.chance(0.07):
            p["open_err"] = rng.choice(["EACCES", "ENOSPC", "EROFS"])
    else:
        if "open_err" in kinds and rng.chance(0.1):
            p["open_err"] = rng.choice(["EACCES", "ENOENT", "EIO"])
    return p


def generate(rng, tier, index):
    fault_free = rng.chance(0.4)
    kinds = []
    if not fault_free:
        allk = ["short", "eintr", "eio", "enospc", "close_fail", "open_err", "foreign", "crash"]
        kinds = [k for k in allk if rng.chance(0.5)]
        if not kinds:
            kinds = [rng.choice(allk)]
    n_ops = rng.between(2, 30)
    n_obj = rng.between(1, 3)
    n_path = rng.between(1, 3)
    names = sorted(rng.sample(NAMES, rng.between(1, 8)))
    numstr = rng.chance(0.7)
    cfg = {"logging": rng.weighted([("quiet", 5), ("default", 2), ("debug", 3)]), "clock": core.gen_clock(rng),
           "checks_off": rng.chance(0.25), "warnings": core.gen_warn(rng), "kwcalls": rng.chance(0.25), "bufsize": rng.choice(BUFSIZES), "chunk": rng.choice([1, 8, 64, 8192, 8192]),
           "fault_kinds": kinds, "fault_free": fault_free, "names": names}
    # op mix for this run (swarm)
    kinds_ops = ["addpar", "set", "set_parameters", "set_varylist", "set_variable_values",
                 "update_other", "update_yourself", "save", "load", "read_par_file", "new"]
    weights = {k: rng.choice([0, 1, 2, 4]) for k in kinds_ops}
    weights["save"] = max(weights["save"], 2)
    weights["load"] = max(weights["load"], 1)
    weights["addpar"] = max(weights["addpar"], 1)
    ops = []

    def kw():
        d = {}
        for nm in rng.sample(names, rng.between(0, min(4, len(names)))):
            if nm.isidentifier():
                d[nm] = enc(gen_value(rng, numstr))
        return d
    ops.append(["new", 0, kw()])
    objs = [0]
    next_obj = 1
    canvary = {}      # generator-side guess of each object's variable_list (only biases the workload)
    written = []      # paths some save / foreign write has targeted so far
    for _ in range(n_ops - 1):
        k = rng.weighted([(kk, w) for kk, w in sorted(weights.items())])
        o = rng.choice(objs)
        path = SIM_PREFIX + "p%d.par" % rng.below(n_path)
        if k in ("load", "read_par_file") and written and rng.chance(0.85):
            path = rng.choice(written)
        if k == "save" and path not in written:
            written.append(path)
        if k == "new":
            if len(objs) >= n_obj:
                continue
            ops.append(["new", next_obj, kw()])
            objs.append(next_obj)
            next_obj += 1
        elif k == "addpar":
            nm, cv = rng.choice(names), rng.chance(0.6)
            ops.append(["addpar", o, nm, enc(gen_value(rng, numstr)), rng.chance(0.4),
                        cv, enc(rng.choice([0.1, 1.0, 1e-3]))])
            if rng.chance(0.3):
                # the caller keeps its par objects, edits them in place and submits them again
                ops[-1].append(rng.below(3))
            if cv and nm not in canvary.setdefault(o, []):
                canvary[o].append(nm)
        elif k == "set":
            if rng.chance(0.06):
                # a string value sized so that, in the file a save would write now, the end of this parameter's line
                # falls on (or next to) a power-of-two offset: buffer / block boundaries are where I/O code breaks
                ops.append(["set_aligned", o, rng.choice(names), rng.choice([512, 1024, 4096, 8192, 8192, 12288, 16384, 65536]),
                            rng.choice([-1, 0, 0, 0, 1])])
            else:
                ops.append(["set", o, rng.choice(names), enc(gen_value(rng, numstr))])
        elif k == "set_parameters":
            d = {nm: enc(gen_value(rng, numstr)) for nm in rng.sample(names, rng.between(0, min(4, len(names))))}
            r = rng.below(10)
            if r < 2 and len(objs) > 1:
                # hand one object's table to another, as in dst.set_parameters(src.get_parameters())
                src = rng.choice([x for x in objs if x != o])
                ops.append(["set_parameters_from", o, src])
            elif r < 5:
                # the caller reuses one of its own dict objects for several calls / objects
                ops.append(["set_parameters", o, d, rng.below(2)])
            else:
                ops.append(["set_parameters", o, d])
        elif k == "set_varylist":
            pool = canvary.get(o) if (canvary.get(o) and rng.chance(0.9)) else names
            vl = [rng.choice(pool) for _ in range(rng.between(0, 4))]
            if rng.chance(0.4):
                # the caller keeps ONE list object per parameters object, rewrites it in place and hands it in again
                ops.append(["set_varylist", o, vl, 1])
            else:
                ops.append(["set_varylist", o, vl])
        elif k == "set_variable_values":
            ops.append(["set_variable_values", o, [enc(gen_value(rng, numstr)) for _ in range(6)]])
        elif k in ("update_other", "update_yourself"):
            d = {nm: enc(gen_value(rng, numstr)) for nm in rng.sample(names, rng.between(0, min(5, len(names))))}
            ops.append([k, o, d, rng.weighted([("instance", 5), ("class", 2), ("property", 2), ("proxy", 2)])])
        elif k == "save" and "crash" in kinds and rng.chance(0.12):
            # the process dies before the n-th raw write of this save; everything in memory is lost
            ops.append(["crash_save", o, path, rng.choice([0, 0, 1, 1, 2, 3, 5, 8])])
            objs = []
            canvary = {}
            ops.append(["read_par_file", next_obj, rng.choice(written), gen_plan(rng, "r", kinds)])
            objs.append(next_obj)
            next_obj += 1
        elif k == "save":
            if "foreign" in kinds and rng.chance(0.15):
                d = {nm: enc(gen_value(rng, numstr)) for nm in rng.sample(names, rng.between(1, min(5, len(names))))}
                ops.append(["foreign_write", path, d])
            else:
                ops.append(["save", o, path, gen_plan(rng, "w", kinds)])
        elif k == "load":
            ops.append(["load", o, path, gen_plan(rng, "r", kinds, names, numstr)])
        elif k == "read_par_file":
            if len(objs) >= n_obj:
                ops.append(["load", o, path, gen_plan(rng, "r", kinds, names, numstr)])
            else:
                ops.append(["read_par_file", next_obj, path, gen_plan(rng, "r", kinds, names, numstr)])
                objs.append(next_obj)
                next_obj += 1
    # which steps are followed by a read-back through the getters (a read is an event too: a lazily
    # maintained object could depend on it, so it must not follow every step in every run)
    p_obs = rng.choice([1.0, 1.0, 0.5, 0.2])
    cfg["observe"] = [1 if rng.chance(p_obs) else 0 for _ in ops]
    if rng.chance(0.005):
        cfg["import_env"] = rng.choice(core.IMPORT_ENVS)
    return {"property": PROPERTY, "config": cfg, "ops": ops}


# ----------------------------------------------------------------------------- executor
class _Violation(Exception):
    def __init__(self, clause, site, detail):
        Exception.__init__(self, clause)
        self.v = {"clause": clause, "site": site, "detail": detail}


class _Other(object):
    pass


def make_peer(kind, attrs):
    """the object a client hands to update_other / update_yourself; WHERE its attributes live is the client's business:
    instance dict, class-level defaults, properties over private storage, or a proxy that delegates attribute access"""
    if kind == "class":
        return type("PeerWithClassDefaults", (object,), dict(attrs))()
    if kind == "property":
        store = dict(attrs)

        def mk(name):
            return property(lambda self: store[name], lambda self, v: store.__setitem__(name, v))
        return type("PeerWithProperties", (object,), {k: mk(k) for k in attrs})()
    if kind == "proxy":
        inner = _Other()
        for k, v in attrs.items():
            setattr(inner, k, v)

        class PeerProxy(object):
            def __getattr__(self, name):
                return getattr(inner, name)

            def __setattr__(self, name, value):
                setattr(inner, name, value)
        return PeerProxy()
    o = _Other()
    for k, v in attrs.items():
        setattr(o, k, v)
    return o


class _Model(object):
    """dictionary reference model of one parameters object"""

    def __init__(self):
        self.p = {}          # name -> [value, may_be_coerced]
        self.vary = []

    def names(self):
        return list(self.p.keys())


def show(v):
    return "%s:%r" % (type(v).__name__, v)


def execute(trace):
    core.import_xfab()
    from xfab import parameters as P
    cfg = trace["config"]
    disk = Disk()
    disk.bufsize = cfg.get("bufsize", 8192)
    disk.chunk = cfg.get("chunk", 8192)
    real_open = builtins.open
    real_io_open = io.open
    sim_open = make_open(disk, real_open)
    had_attr = "open" in P.__dict__
    old_attr = P.__dict__.get("open")
    events = []
    counters = {}
    sets = {"grams": set(), "states": set()}

    def count(k, n=1):
        counters[k] = counters.get(k, 0) + n

    kwcalls = bool(cfg.get("kwcalls"))

    def K(fn, names, *args):
        """call with positional or (per run) keyword arguments; the names are the public parameter names"""
        if kwcalls and len(names) == len(args):
            return fn(**dict(zip(names, args)))
        return fn(*args)

    objs = {}      # id -> real object
    models = {}    # id -> _Model
    shared = {}    # caller-side dict objects that are reused across calls
    caller_lists = {}   # per parameters object: the one list object its caller keeps for set_varylist
    held_pars = {}      # par objects the caller keeps and re-submits
    obs_flags = cfg.get("observe")
    paths = {}     # path -> ("ack"|"foreign", [(name, value)]) | ("unknown",)
    violation = None
    n_save = n_load = 0
    prev_kinds = []

    def merge_fired():
        for k, v in disk.fired.items():
            count("fault." + k, v)

    def observe(oid, site):
        """compare object oid with its model through the public getters; resolve allowed coercions"""
        o, m = objs[oid], models[oid]
        got = o.get_parameters()
        gk = sorted(got.keys())
        mk = sorted(m.p.keys())
        if gk != mk:
            raise _Violation("key set differs from dictionary model", site,
                             "object has %s, model has %s" % (gk, mk))
        for k in mk:
            raw, may = m.p[k]
            real = got[k]
            ok = same(real, raw)
            if not ok and may and isinstance(raw, str) and same(real, coerce(raw)):
                ok = True
                m.p[k] = [real, False]
                count("relax.coerced_string_resolved")
            if not ok:
                raise _Violation("value differs from last value written", site,
                                 "key %r: object has %s, model has %s%s" % (k, show(real), show(raw), " (or coerced)" if may else ""))
            g = o.get(k)
            if not same(g, got[k]):
                raise _Violation("get() disagrees with get_parameters()", site, "key %r: %s vs %s" % (k, show(g), show(got[k])))
        if all(n in m.p for n in m.vary):
            vv = o.get_variable_values()
            exp = [m.p[n][0] for n in m.vary]
            if len(vv) != len(exp) or not all(same(a, b) for a, b in zip(vv, exp)):
                raise _Violation("get_variable_values() does not follow varylist order", site,
                                 "got %s expected %s for varylist %s" % ([show(x) for x in vv], [show(x) for x in exp], m.vary))
        try:
            if list(o.varylist) != m.vary:
                count("probe.varylist_attr_differs")
        except Exception:
            count("probe.varylist_attr_missing")

    def state_digest():
        d = []
        for oid in sorted(models):
            m = models[oid]
            d.append([oid, sorted((k, type(v[0]).__name__) for k, v in m.p.items()), len(m.vary)])
        d.append(sorted((p, s[0]) for p, s in paths.items()))
        return core.digest(d)[:12]

    def expected_from_snapshot(snap):
        exp = {}
        amb = set()
        for (name, value) in snap:
            key = name.replace("-", "_")
            lv = load_value(value)
            if key in exp and not same(exp[key], lv):
                amb.add(key)
            exp[key] = lv
        return exp, amb

    def do_load(target, path, plan, site):
        """shared by load / read_par_file / verification loads; returns (raised_type or None)"""
        disk.arm(plan)
        try:
            try:
                K(target.loadparameters, ["filename"], path)
                raised = None
            except OSError as e:
                if not getattr(e, "_xsim", False) and not disk.unrecoverable:
                    raise core.HarnessError(
                        "seam bypass: the code under test reached the real operating system with a path of the simulated "
                        "disk while loading (%r); that call is not simulated, nothing can be concluded" % (e,))
                raised = "OSError:%s" % errno.errorcode.get(e.errno, e.errno)
            except Exception as e:  # noqa
                raised = type(e).__name__
        finally:
            merge_fired()
            unrec = disk.unrecoverable
            last_replaced[0] = disk.replaced
            disk.disarm()
        return raised, unrec

    last_replaced = [None]
    last_exc = [None]
    import os as _os
    os_real, os_sim = make_os_seams(disk)
    real_fileio = io.FileIO

    def sim_fileio(file, mode="r", closefd=True, opener=None):
        """io.FileIO(path_or_fd): an unbuffered raw file of the simulated disk for its paths / descriptors"""
        if isinstance(file, int) and file in getattr(disk, "fds", {}):
            return disk.fds[file]
        try:
            pth = _os.fspath(file)
        except TypeError:
            pth = None
        if isinstance(pth, bytes):
            pth = pth.decode()
        if isinstance(pth, str) and pth.startswith(SIM_PREFIX):
            return sim_open(pth, mode if "b" in mode else mode + "b", 0)
        return real_fileio(file, mode, closefd, opener)
    warncfg = core.warn_config(cfg.get("warnings", "ignore"))
    warncfg.__enter__()
    logcfg = core.log_config(cfg.get("logging", "quiet"))
    logcfg.__enter__()
    count("logging." + logcfg.mode)
    clock = core.sim_clock(cfg.get("clock"))
    clock.__enter__()
    import xfab as _xfab
    switch_off = bool(cfg.get("checks_off"))
    if switch_off:
        # the package-wide input-check switch: process configuration that has nothing to do with parameter sets
        try:
            _xfab.CHECKS.activated = False
            count("config.checks_switch_off")
        except Exception:
            pass
    P.open = sim_open
    builtins.open = sim_open
    io.open = sim_open
    io.FileIO = sim_fileio
    for _k, _f in os_sim.items():
        setattr(_os.path if _k in PATH_FUNCS else _os, _k, _f)
    try:
        try:
            site = "start"
            for opi, op in enumerate(trace["ops"]):
                kind = op[0]
                site = kind
                outcome = "ok"
                touched = []
                if kind == "new":
                    oid = op[1]
                    if oid in objs:
                        continue
                    kw = {k: dec(v) for k, v in op[2].items() if k.isidentifier()}
                    objs[oid] = P.parameters(**kw)
                    models[oid] = _Model()
                    for k, v in kw.items():
                        models[oid].p[k] = [v, False]
                    touched = [oid]
                elif kind == "foreign_write":
                    path, d = op[1], op[2]
                    snap = [(k, dec(v)) for k, v in sorted(d.items())]
                    disk.files[path] = bytearray("".join("%s %s\n" % (k, str(v)) for k, v in snap).encode("utf-8"))
                    paths[path] = ("foreign", snap)
                    count("fault.foreign_write")
                else:
                    oid = op[1]
                    if kind == "read_par_file":
                        if oid in objs:
                            continue
                    elif oid not in objs:
                        continue
                    o = objs.get(oid)
                    m = models.get(oid)
                    touched = [oid]
                    if kind == "addpar":
                        _, _, name, v, vary, can_vary, step = op[:7]
                        v = dec(v)
                        if len(op) > 7 and op[7] is not None:
                            hp = held_pars.get(op[7])
                            if hp is None:
                                hp = held_pars[op[7]] = P.par(name, v, vary=vary, can_vary=can_vary, stepsize=dec(step))
                            else:
                                hp.name, hp.value, hp.vary, hp.can_vary, hp.stepsize = name, v, vary, can_vary, dec(step)
                            count("probe.caller_par_object_reused")
                            K(o.addpar, ["par"], hp)
                        elif kwcalls:
                            o.addpar(par=P.par(name=name, value=v, vary=vary, can_vary=can_vary, stepsize=dec(step)))
                        else:
                            o.addpar(P.par(name, v, vary=vary, can_vary=can_vary, stepsize=dec(step)))
                        m.p[name] = [v, False]
                        if vary and name not in m.vary:
                            m.vary.append(name)
                    elif kind == "set":
                        v = dec(op[3])
                        K(o.set, ["name", "value"], op[2], v)
                        m.p[op[2]] = [v, False]
                    elif kind == "set_aligned":
                        name, boundary, delta = op[2], int(op[3]), int(op[4])
                        # size of everything a save would write up to and including "name " in the documented
                        # format (sorted keys, "key value\n"); pure function of the model, no file is touched
                        keys_ = sorted(set(list(m.p.keys()) + [name]))
                        blen = lambda x_: len(str(x_).encode("utf-8"))   # noqa
                        before_ = sum(blen(k_) + 1 + blen(m.p[k_][0]) + 1 for k_ in keys_ if k_ < name)
                        need = boundary + delta - (before_ + blen(name) + 1) - 1     # minus the newline
                        if need < 1:
                            count("skip.set_aligned_no_room")
                            continue
                        v = ("q" * need)
                        o.set(name, v)
                        m.p[name] = [v, False]
                        count("probe.value_aligned_to_%d" % boundary)
                    elif kind == "set_parameters_from":
                        src = op[2]
                        if src not in objs or src == oid:
                            continue
                        o.set_parameters(objs[src].get_parameters())
                        for k, v in models[src].p.items():
                            m.p[k] = [v[0], True]
                        for k in m.p:
                            if isinstance(m.p[k][0], str):
                                m.p[k][1] = True
                    elif kind == "set_parameters":
                        d = {k: dec(v) for k, v in op[2].items()}
                        if len(op) > 3 and op[3] is not None:
                            # the caller's own dict object, rewritten in place before it is passed again
                            dobj = shared.setdefault(op[3], {})
                            dobj.clear()
                            dobj.update(d)
                            count("probe.caller_dict_reused")
                        else:
                            dobj = dict(d)
                        K(o.set_parameters, ["d"], dobj)
                        for k, v in d.items():
                            m.p[k] = [v, False]
                        for k in m.p:
                            if isinstance(m.p[k][0], str):
                                m.p[k][1] = True
                    elif kind == "set_varylist":
                        try:
                            allowed = list(o.get_variable_list())
                        except Exception:
                            allowed = []
                        vl = [n for n in op[2]]
                        if not all(n in allowed and n in m.p for n in vl):
                            count("skip.set_varylist_precondition")
                            continue
                        if len(op) > 3 and op[3]:
                            # the caller's own list object for this parameters object: rewritten in place, passed again
                            lst = caller_lists.setdefault(oid, [])
                            lst[:] = vl
                            count("probe.caller_list_reused")
                            K(o.set_varylist, ["vl"], lst)
                        else:
                            K(o.set_varylist, ["vl"], list(vl))
                        m.vary = list(vl)
                    elif kind == "set_variable_values":
                        if not all(n in m.p for n in m.vary):
                            continue
                        vals = [dec(v) for v in op[2]][:len(m.vary)]
                        if len(vals) != len(m.vary):
                            count("skip.set_variable_values_length")
                            continue
                        K(o.set_variable_values, ["values"], list(vals))
                        for n, v in zip(m.vary, vals):
                            m.p[n] = [v, False]
                    elif kind in ("update_other", "update_yourself"):
                        attrs = {k: dec(v) for k, v in op[2].items()}
                        peer_kind = op[3] if len(op) > 3 else "instance"
                        other = make_peer(peer_kind, attrs)
                        count("peer." + peer_kind)
                        if kind == "update_other":
                            o.update_other(other)
                            exp = dict(attrs)
                            for k in m.p:
                                if k in exp:
                                    exp[k] = o.get_parameters().get(k, m.p[k][0])
                            got = {k: getattr(other, k) for k in exp}
                            if not all(same(got[k], exp[k]) for k in exp):
                                raise _Violation("update_other did not synchronise the other object", site,
                                                 "other has %s expected %s" % (sorted((k, show(v)) for k, v in got.items()),
                                                                              sorted((k, show(v)) for k, v in exp.items())))
                        else:
                            o.update_yourself(other)
                            for k in m.p:
                                if k in attrs:
                                    m.p[k] = [attrs[k], False]
                            if not all(same(getattr(other, k), attrs[k]) for k in attrs):
                                raise _Violation("update_yourself modified the other object", site, "")
                    elif kind == "save":
                        path, plan = op[2], op[3]
                        n_save += 1
                        snap = [(k, m.p[k][0]) for k in sorted(m.p)]
                        if any(isinstance(v, float) and v != v for _, v in snap):
                            continue
                        disk.arm(plan)
                        try:
                            last_exc[0] = None
                            try:
                                K(o.saveparameters, ["filename"], path)
                                raised = None
                            except OSError as e:
                                last_exc[0] = e
                                raised = "OSError:%s" % errno.errorcode.get(e.errno, e.errno)
                            except Exception as e:  # noqa
                                raised = type(e).__name__
                        finally:
                            merge_fired()
                            unrec = disk.unrecoverable
                            leaked = len(disk.open_raws)
                            disk.disarm()
                        if leaked:
                            count("probe.handles_open_after_save", leaked)
                        outcome = raised or "ack"
                        if raised is not None:
                            count("save.raised")
                            if not unrec and last_exc[0] is not None and not getattr(last_exc[0], "_xsim", False) \
                                    and isinstance(last_exc[0], OSError):
                                raise core.HarnessError(
                                    "seam bypass: the code under test reached the real operating system with a path of the "
                                    "simulated disk (%r); that call is not simulated, nothing can be concluded" % (last_exc[0],))
                            if not unrec:
                                raise _Violation("save failed although no unrecoverable fault was injected", site,
                                                 "raised %s" % raised)
                            paths[path] = ("unknown",)
                            count("relax.path_unknown_after_failed_save")
                        else:
                            count("save.acknowledged")
                            if unrec:
                                count("probe.ack_despite_unrecoverable_fault")
                            paths[path] = ("ack", snap)
                            # durability: an acknowledged save must round-trip (fault-free verification load)
                            fresh = P.parameters()
                            r2, _ = do_load(fresh, path, None, site)
                            exp, amb = expected_from_snapshot(snap)
                            if r2 is not None:
                                raise _Violation("acknowledged save does not load back", site, "load raised %s" % r2)
                            got = fresh.get_parameters()
                            if sorted(got) != sorted(exp):
                                raise _Violation("acknowledged save does not round-trip (keys)", site,
                                                 "saved %s, loaded %s" % (sorted(exp), sorted(got)))
                            for k in exp:
                                if k not in amb and not same(got[k], exp[k]):
                                    raise _Violation("acknowledged save does not round-trip (value)", site,
                                                     "key %r saved %s loaded %s" % (k, show(exp[k]), show(got[k])))
                    elif kind == "crash_save":
                        path, at = op[2], int(op[3])
                        n_save += 1
                        snap = [(k, m.p[k][0]) for k in sorted(m.p)]
                        if any(isinstance(v, float) and v != v for _, v in snap):
                            continue
                        disk.arm({"crash_at": at})
                        crashed = False
                        try:
                            try:
                                o.saveparameters(path)
                            except SimCrash:
                                crashed = True
                            except Exception:
                                # the I/O stack turns the crash into OSError when close() retries the flush
                                if not disk.frozen:
                                    raise
                        finally:
                            merge_fired()
                        crashed = crashed or disk.frozen
                        if not crashed:
                            # the save finished before the crash point: an ordinary acknowledged save
                            disk.disarm()
                            paths[path] = ("ack", snap)
                            outcome = "ack(no crash)"
                            count("save.acknowledged")
                        else:
                            # process death: every in-memory object is gone, destructors must not reach the disk
                            import gc
                            o = m = None
                            objs.clear()
                            models.clear()
                            caller_lists.clear()
                            held_pars.clear()
                            gc.collect()
                            disk.open_raws[:] = []
                            disk.frozen = False
                            disk.disarm()
                            paths[path] = ("unknown",)
                            outcome = "crashed"
                            touched = []
                            count("relax.path_unknown_after_crash")
                            # durability across the crash: every other acknowledged file is still intact
                            for pth in sorted(paths):
                                st2 = paths[pth]
                                if st2[0] not in ("ack", "foreign"):
                                    continue
                                fresh = P.parameters()
                                r2, _ = do_load(fresh, pth, None, site)
                                exp, amb = expected_from_snapshot(st2[1])
                                got = fresh.get_parameters() if r2 is None else {}
                                if r2 is not None or sorted(got) != sorted(exp) or not all(
                                        k in amb or same(got[k], exp[k]) for k in exp):
                                    raise _Violation("crash during a save damaged another acknowledged file", site,
                                                     "%s: load %s, keys %s expected %s" % (pth, r2 or "ok", sorted(got), sorted(exp)))
                                count("probe.other_file_intact_after_crash")
                    elif kind in ("load", "read_par_file"):
                        path, plan = op[2], op[3]
                        st = paths.get(path, ("absent",))
                        n_load += 1
                        if kind == "read_par_file" or st[0] == "unknown":
                            target = P.parameters()
                        else:
                            target = o
                        if st[0] == "unknown":
                            # torn file after a failed save: explored, nothing asserted about its content
                            r, _ = do_load(target, path, plan, site)
                            count("probe.torn_file_load." + ("raised" if r else "returned"))
                            outcome = "torn:" + (r or "ok")
                            touched = []
                        else:
                            before = None if kind == "read_par_file" else {k: list(v) for k, v in m.p.items()}
                            r, unrec = do_load(target, path, plan, site)
                            outcome = r or "ok"
                            snaps = [st[1]] if st[0] != "absent" else []
                            if last_replaced[0] is not None:
                                # the file was replaced while the load was in progress: the load may deliver the old
                                # file or the new one (as a whole), and the path now holds the new one
                                snaps.append(last_replaced[0])
                                paths[path] = ("foreign", last_replaced[0])
                                if st[0] == "absent":
                                    st = ("foreign", last_replaced[0])
                                    snaps = [last_replaced[0]]
                            if st[0] == "absent":
                                if r is None:
                                    raise _Violation("load of a missing file returned normally", site, path)
                                if kind == "read_par_file":
                                    touched = []
                            elif r is not None:
                                if not unrec:
                                    raise _Violation("load failed although no unrecoverable fault was injected", site,
                                                     "raised %s" % r)
                                count("load.raised")
                                if kind == "read_par_file":
                                    touched = []
                                else:
                                    # each key old or file value, nothing else
                                    exps = [expected_from_snapshot(sn) for sn in snaps]
                                    amb = set().union(*[e[1] for e in exps]) if exps else set()
                                    got = o.get_parameters()
                                    for k in set(list(got.keys()) + list(m.p.keys())):
                                        cands = []
                                        if k in before:
                                            cands.append(before[k][0])
                                            if isinstance(before[k][0], str):
                                                cands.append(coerce(before[k][0]))
                                        for exp, _a in exps:
                                            if k in exp:
                                                cands.append(exp[k])
                                        if k not in got:
                                            if k in before:
                                                raise _Violation("failed load removed a key", site, k)
                                            continue
                                        if not any(same(got[k], c) for c in cands) and k not in amb:
                                            raise _Violation("failed load left a value that is neither old nor the file's", site,
                                                             "key %r: %s" % (k, show(got[k])))
                                        m.p[k] = [got[k], False]
                                    count("relax.resync_after_failed_load")
                            else:
                                count("load.ok")
                                exp, amb = expected_from_snapshot(snaps[0])
                                if len(snaps) > 1:
                                    # which of the two whole files did the load deliver?  (anything else is a mapping
                                    # nobody ever saved)
                                    got = target.get_parameters()
                                    chosen = None
                                    for sn in snaps:
                                        e2, a2 = expected_from_snapshot(sn)
                                        base_keys = set() if kind == "read_par_file" else set(before.keys())
                                        if set(got.keys()) == base_keys | set(e2.keys()) and all(
                                                (k in a2) or same(got[k], e2[k]) for k in e2):
                                            chosen = (e2, a2)
                                            break
                                    if chosen is None:
                                        raise _Violation("load returned a mapping that is neither the old nor the new file", site,
                                                         "loaded keys %s; old file %s; new file %s" % (
                                                             sorted(got.keys()), sorted(expected_from_snapshot(snaps[0])[0]),
                                                             sorted(expected_from_snapshot(snaps[1])[0])))
                                    exp, amb = chosen
                                    count("probe.load_during_replace_delivered_whole_file")
                                if kind == "read_par_file":
                                    objs[oid] = target
                                    models[oid] = _Model()
                                    m = models[oid]
                                for k in m.p:
                                    if isinstance(m.p[k][0], str):
                                        m.p[k][1] = True
                                for k, v in exp.items():
                                    if k in amb:
                                        m.p[k] = [target.get_parameters().get(k), False]
                                        count("relax.hyphen_underscore_collision")
                                    else:
                                        m.p[k] = [v, False]
                    else:
                        raise core.HarnessError("unknown op %r" % kind)
                if obs_flags is None or opi >= len(obs_flags) or obs_flags[opi]:
                    for oid in touched:
                        if oid in objs:
                            observe(oid, site)
                    for oid in sorted(objs):
                        if oid not in touched:
                            observe(oid, site + ":bystander-object")
                    count("reads.observed_steps")
                events.append([opi, kind, outcome, state_digest()])
                sets["states"].add(events[-1][3])
                prev_kinds.append(kind)
                if len(prev_kinds) >= 3:
                    sets["grams"].add(">".join(prev_kinds[-3:]))
                count("op." + kind)
            site = "end-of-history"
            for oid in sorted(objs):
                observe(oid, site)
        except _Violation as v:
            violation = v.v
            violation["op_index"] = len(events)
        except core.HarnessError:
            raise
        except Exception as e:  # noqa -- an API call of the code under test raised: that is a verdict, not a harness fault
            import traceback as _tb
            tb = _tb.extract_tb(e.__traceback__)
            inside = [fr for fr in tb if "/xfab/" in fr.filename.replace("\\", "/")]
            if not inside:
                raise core.HarnessError("simulator raised %s: %s" % (type(e).__name__, e))
            violation = {"clause": "API call raised %s" % type(e).__name__, "site": site,
                         "detail": "%s at %s:%d" % (str(e)[:120], inside[-1].filename.split("/xfab/")[-1], inside[-1].lineno),
                         "op_index": len(events)}
    finally:
        for _k, _f in os_real.items():
            setattr(_os.path if _k in PATH_FUNCS else _os, _k, _f)
        builtins.open = real_open
        io.open = real_io_open
        io.FileIO = real_fileio
        if had_attr:
            P.open = old_attr
        else:
            try:
                del P.open
            except AttributeError:
                pass
        logcfg.__exit__(None, None, None)
        warncfg.__exit__(None, None, None)
        clock.__exit__(None, None, None)
        if clock.reads:
            count("probe.clock_reads_by_code_under_test", clock.reads)
        if clock.jumped:
            count("fault.clock_jump")
        if switch_off:
            try:
                _xfab.CHECKS.activated = True
            except Exception:
                pass
    return {"violation": violation, "events": events, "counters": counters,
            "nontrivial": n_save >= 1 and n_load >= 1, "steps": len(events),
            "fault_free": bool(cfg.get("fault_free")),
            "sets": {k: sorted(v) for k, v in sets.items()}}


# ----------------------------------------------------------------------------- shrinking
def shrink_candidates(trace):
    ops = trace["ops"]
    n = len(ops)
    obs = trace["config"].get("observe")
    if obs is None or len(obs) != n:
        obs = [1] * n
    size = n // 2
    while size >= 1:
        for start in range(0, n, size):
            t = copy.deepcopy(trace)
            t["ops"] = ops[:start] + ops[start + size:]
            t["config"]["observe"] = obs[:start] + obs[start + size:]
            if len(t["ops"]) < n:
                yield t
        size //= 2
    for i, op in enumerate(ops):
        if op[0] == "crash_save" and op[3] != 0:
            t = copy.deepcopy(trace)
            t["ops"][i][3] = 0
            yield t
        if op[0] in ("save", "load", "read_par_file") and op[3]:
            t = copy.deepcopy(trace)
            t["ops"][i][3] = {}
            yield t
            for key in sorted(op[3].keys()):
                t = copy.deepcopy(trace)
                del t["ops"][i][3][key]
                yield t
            if op[3].get("plan"):
                for j in range(len(op[3]["plan"])):
                    if op[3]["plan"][j] != "ok":
                        t = copy.deepcopy(trace)
                        t["ops"][i][3]["plan"][j] = "ok"
                        yield t
        # shrink dictionaries and values
        for pos in range(len(op)):
            if isinstance(op[pos], dict) and op[0] not in ("save", "load", "read_par_file", "crash_save"):
                for k in sorted(op[pos].keys()):
                    t = copy.deepcopy(trace)
                    del t["ops"][i][pos][k]
                    yield t
                    if op[pos][k] not in (["i", "0"], ["s", "a"]):
                        for simple in (["i", "0"], ["s", "a"]):
                            t = copy.deepcopy(trace)
                            t["ops"][i][pos][k] = simple
                            yield t
            elif isinstance(op[pos], list) and len(op[pos]) == 2 and op[pos][0] in ("i", "f", "s") and pos >= 2:
                if op[pos] not in (["i", "0"], ["s", "a"]):
                    for simple in (["i", "0"], ["s", "a"]):
                        t = copy.deepcopy(trace)
                        t["ops"][i][pos] = simple
                        yield t
    if trace["config"].get("bufsize") != 8192 or trace["config"].get("chunk") != 8192:
        t = copy.deepcopy(trace)
        t["config"]["bufsize"] = 8192
        t["config"]["chunk"] = 8192
        yield t


def _plan_weight(op):
    if op[0] in ("save", "load", "read_par_file") and op[3]:
        return len(op[3]) + sum(1 for d in op[3].get("plan", []) if d != "ok")
    return 0


def _value_weight(x):
    if isinstance(x, dict):
        return sum(1 + _value_weight(v) for v in x.values())
    if isinstance(x, list) and len(x) == 2 and x[0] in ("i", "f", "s") and isinstance(x[1], str):
        return 0 if x in (["i", "0"], ["s", "a"]) else 1
    if isinstance(x, list):
        return sum(_value_weight(v) for v in x)
    return 0


def trace_size(trace):
    return (len(trace["ops"]), sum(_plan_weight(op) for op in trace["ops"]),
            sum(_value_weight(op[2:]) for op in trace["ops"] if op[0] not in ("save", "load", "read_par_file", "crash_save")),
            0 if (trace["config"].get("bufsize") == 8192 and trace["config"].get("chunk") == 8192) else 1)


RULE = ("one run = one seeded history (2-30 ops) of parameters API calls on 1-3 objects and 1-3 simulated files, "
        "with an I/O fault plan attached to each save/load; distinct = distinct trace digest; non-trivial = at "
        "least one saveparameters and one loadparameters were executed")


def sample_view(trace):
    return {"config": trace["config"], "ops": trace["ops"][:10], "n_ops": len(trace["ops"])}


def coverage_extra(prop, merged, pre):
    c = merged["counters"]
    return {
        "distinct_abstract_states": len(merged["sets"].get("states", [])),
        "distinct_op_3grams": len(merged["sets"].get("grams", [])),
        "faults_fired": {k[6:]: v for k, v in c.items() if k.startswith("fault.")},
        "relaxations_applied": {k[6:]: v for k, v in c.items() if k.startswith("relax.")},
        "probes": {k[6:]: v for k, v in c.items() if k.startswith("probe.")},
        "real_vs_stub": {
            "real": ["xfab/parameters.py (all of it)", "io.TextIOWrapper", "io.BufferedWriter", "io.BufferedReader"],
            "simulated": ["raw file + directory + capacity (xsim.c19.SimRaw/Disk)", "competing writer",
                          "objects passed to update_other/update_yourself"],
        },
    }


def assumptions(prop):
    return ["ints are bounded by |v| < 2**1401 (beyond the float range on purpose) and floats are NaN-free",
            "names and string values are non-empty, whitespace-free printable ASCII; no hyphen/underscore twin names",
            "no power-loss durability is asserted: the code never fsyncs and C19 does not promise it",
            "the text layer is constructed with utf-8 (the real default is locale dependent; content is ASCII)"]
