"""Two real threads under a baton, plus cooperative locks.

The simulator never lets the OS decide who runs: of the two client threads (actor 0 = the process' main thread,
actor 1 = one worker thread) exactly one is running at any time, the other one is parked on its inbox.  A pre-empting
action is executed by the *other* real thread while the pre-empted one is parked inside its trace function.

Locks created by the code under test (threading.Lock / threading.RLock called from a file under the xfab source
tree) are CoopLocks: if the running actor needs a lock the parked actor holds, it tells the parked actor, which
resumes its own work until it releases the lock, hands the baton back, and so on.  Without this, code that is made
thread-safe WITH locks would deadlock under a simulator that parks the lock holder.
"""
import queue
import sys
import threading
import _thread

from . import core

SUSPENDED = object()
CURRENT = None          # the scheduler of the run in progress (or None)
_REAL_LOCK = _thread.allocate_lock
_REAL_RLOCK = threading.RLock
_REAL_CONDITION = threading.Condition
_THREADING_FILE = threading.__file__
_SRC_PREFIX = [None]


class Sched(object):
    def __init__(self):
        self.inbox = [queue.Queue(), queue.Queue()]
        self.ident = [threading.get_ident(), None]
        self.thread = None
        self.suspended = [False, False]     # suspended[a]: the action actor a asked the other one to run is still pending
        self.late = [None, None]
        self.stats = {}

    # ------------------------------------------------------------------ actors
    def me(self):
        i = threading.get_ident()
        if i == self.ident[0]:
            return 0
        if i == self.ident[1]:
            return 1
        return None

    def _serve(self):
        self.ident[1] = threading.get_ident()
        try:
            import numpy
            numpy.seterr(all="ignore")      # numpy's floating-point error state is per thread
        except Exception:
            pass
        self.ready.put(1)
        while True:
            msg = self.inbox[1].get()
            if msg[0] == "stop":
                return
            if msg[0] == "run":
                self.inbox[0].put(("reply", self._exec(msg[1])))

    def _ensure(self):
        if self.thread is None:
            self.ready = queue.Queue()
            self.thread = threading.Thread(target=self._serve, name="xsim-second-party", daemon=True)
            self.thread.start()
            self.ready.get()

    @staticmethod
    def _exec(fn):
        try:
            return ("ok", fn())
        except BaseException as e:  # noqa
            return ("exc", e)

    def _wait(self, me):
        """park actor `me` until the other actor answers; serve its requests meanwhile"""
        while True:
            msg = self.inbox[me].get()
            if msg[0] == "run":
                self.inbox[1 - me].put(("reply", self._exec(msg[1])))
            elif msg[0] == "blocked":
                return SUSPENDED
            elif msg[0] == "reply":
                return msg[1]

    @staticmethod
    def _unwrap(r):
        if r[0] == "exc":
            raise r[1]
        return r[1]

    def run_on(self, t, fn):
        """called by actor 0: execute fn on actor t and return its value"""
        if not t:
            return fn()
        self._ensure()
        self.inbox[1].put(("run", fn))
        r = self._wait(0)
        while r is SUSPENDED:            # cannot happen for a top-level request, but never lose a baton
            r = self._wait(0)
        return self._unwrap(r)

    def on_other(self, fn):
        """called by the running actor (typically inside a trace function): the OTHER real thread executes fn now,
        this one is parked until fn has finished -- or until fn blocks on a lock this actor holds"""
        me = self.me()
        if me is None:
            return fn()
        self._ensure()
        self.inbox[1 - me].put(("run", fn))
        r = self._wait(me)
        if r is SUSPENDED:
            self.suspended[me] = True
            self.stats["second_party_blocked_on_lock"] = self.stats.get("second_party_blocked_on_lock", 0) + 1
            return None
        return self._unwrap(r)

    def finish_other(self):
        """called by an actor after its own call has ended: wait for a still pending action of the other one"""
        me = self.me()
        if me is None:
            return
        while self.suspended[me]:
            r = self._wait(me)
            if r is not SUSPENDED:
                self.suspended[me] = False
                self._unwrap(r)

    def stop(self):
        if self.thread is not None:
            self.inbox[1].put(("stop",))
            self.thread.join(5)
            self.thread = None


class CoopLock(object):
    """stand-in for threading.Lock / RLock objects created by the code under test"""

    def __init__(self, reentrant=False):
        self._re = reentrant
        self._owner = None
        self._count = 0
        self._wake = queue.Queue()
        self._waiting = 0
        self._conds = []
        self._fallback = _REAL_RLOCK() if reentrant else _REAL_LOCK()

    def acquire(self, blocking=True, timeout=-1):
        s = CURRENT
        me = s.me() if s is not None else None
        if me is None:
            # no simulated schedule in progress (import time, foreign threads): a plain lock
            ok = self._fallback.acquire(blocking, timeout) if blocking else self._fallback.acquire(False)
            if ok:
                self._owner, self._count = ("real", threading.get_ident()), self._count + 1
            return ok
        key = ("actor", me)
        while True:
            if self._owner is None:
                self._owner, self._count = key, 1
                return True
            if self._owner == key:
                if self._re:
                    self._count += 1
                    return True
                raise core.HarnessError("the code under test re-acquires a non-reentrant lock it already holds (self-deadlock)")
            if not blocking:
                return False
            # held by the parked actor: tell it, and wait until it releases
            self._waiting += 1
            s.inbox[1 - me].put(("blocked",))
            self._wake.get()
            self._waiting -= 1

    def release(self):
        s = CURRENT
        if self._owner is not None and self._owner[0] == "real":
            self._count -= 1
            if self._count == 0:
                self._owner = None
            self._fallback.release()
            return
        if self._owner is None:
            raise RuntimeError("release unlocked lock")
        self._count -= 1
        if self._count > 0:
            return
        self._owner = None
        if s is None:
            return
        ready = None
        if not self._waiting:
            for c in self._conds:
                if c._tokens and c._parked:
                    ready = c
                    break
        if self._waiting or ready is not None:
            me = s.me()
            if me is None:
                return
            if self._waiting:
                self._wake.put(1)
            else:
                ready._parked = False
                ready._wake.put(1)
            # the waiter runs now; this actor is parked until the waiter's action has finished or blocks again
            r = s._wait(me)
            if r is not SUSPENDED:
                s.suspended[me] = False
                s._unwrap(r)

    __enter__ = acquire

    def __exit__(self, *a):
        self.release()

    def locked(self):
        return self._owner is not None

    def _is_owned(self):
        s = CURRENT
        me = s.me() if s is not None else None
        return self._owner == (("actor", me) if me is not None else ("real", threading.get_ident()))


class CoopCondition(object):
    """stand-in for threading.Condition objects created by the code under test, directly or inside a
    threading.Semaphore / BoundedSemaphore / Event it creates.  wait() hands the baton to the parked actor (the only one
    that can notify); notify() leaves a token that is handed over when the notifier releases the lock."""

    def __init__(self, lock=None):
        if lock is None:
            lock = CoopLock(True)
        if not isinstance(lock, CoopLock):
            raise core.HarnessError("condition of the code under test over a lock the simulator does not own")
        self._lock = lock
        self.acquire = lock.acquire
        self.release = lock.release
        self._sleepers = 0
        self._tokens = 0
        self._parked = False
        self._wake = queue.Queue()
        self._real = _REAL_CONDITION(lock._fallback)
        lock._conds.append(self)

    def __enter__(self):
        return self._lock.acquire()

    def __exit__(self, *a):
        self._lock.release()

    def _is_owned(self):
        return self._lock._is_owned()

    def wait(self, timeout=None):
        if not self._lock._is_owned():
            raise RuntimeError("cannot wait on un-acquired lock")
        s = CURRENT
        me = s.me() if s is not None else None
        lk = self._lock
        if me is None:
            saved = (lk._owner, lk._count)
            lk._owner, lk._count = None, 0
            try:
                return self._real.wait(timeout)
            finally:
                lk._owner, lk._count = saved
        saved = lk._count
        self._sleepers += 1
        lk._count = 1
        lk.release()
        while self._tokens == 0:
            # only the parked actor can notify: it resumes its own work; this actor sleeps until a token is handed over
            self._parked = True
            s.stats["condition_wait_handed_baton"] = s.stats.get("condition_wait_handed_baton", 0) + 1
            s.inbox[1 - me].put(("blocked",))
            self._wake.get()
        self._tokens -= 1
        self._sleepers -= 1
        lk.acquire()
        lk._count = saved
        return True

    def wait_for(self, predicate, timeout=None):
        r = predicate()
        while not r:
            self.wait(timeout)
            r = predicate()
        return r

    def notify(self, n=1):
        if not self._lock._is_owned():
            raise RuntimeError("cannot notify on un-acquired lock")
        s = CURRENT
        if s is None or s.me() is None:
            self._real.notify(n)
            return
        self._tokens = min(self._sleepers, self._tokens + n)

    def notify_all(self):
        self.notify(1 << 30)

    notifyAll = notify_all


def _creator_frame():
    """the frame that asked for the primitive, looking through threading.py's own Semaphore/Event/Condition/Barrier
    constructors (but not through Thread.__init__: the events of a thread object belong to real, unscheduled threads)"""
    f = sys._getframe(3)
    while f is not None and f.f_code.co_filename == _THREADING_FILE:
        if f.f_code.co_name != "__init__" or type(f.f_locals.get("self")).__name__ not in (
                "Semaphore", "BoundedSemaphore", "Event", "Condition"):
            return None
        f = f.f_back
    return f


def _from_code_under_test():
    f = _creator_frame()
    pre = _SRC_PREFIX[0]
    return bool(pre) and f is not None and f.f_code.co_filename.startswith(pre)


def _lock_factory(*a, **k):
    if _from_code_under_test():
        return CoopLock(False)
    return _REAL_LOCK(*a, **k)


def _rlock_factory(*a, **k):
    if _from_code_under_test():
        return CoopLock(True)
    return _REAL_RLOCK(*a, **k)


def _condition_factory(lock=None):
    if isinstance(lock, CoopLock) or (lock is None and _from_code_under_test()):
        return CoopCondition(lock)
    return _REAL_CONDITION(lock)


def install_lock_seam(src_prefix):
    """must run before the code under test is imported (module-level locks are created at import)"""
    _SRC_PREFIX[0] = src_prefix
    threading.Lock = _lock_factory
    threading.RLock = _rlock_factory
    threading.Condition = _condition_factory


def begin():
    global CURRENT
    CURRENT = Sched()
    return CURRENT


def end():
    global CURRENT
    if CURRENT is not None:
        try:
            CURRENT.stop()
        finally:
            CURRENT = None
