"""Proving the simulator: determinism across interpreters / hash seeds / worker counts, and
sensitivity against the committed mutants and controls (scratch copies outside /repo and /verif)."""
import json
import os
import re
import shutil
import subprocess
import sys
import tempfile
import time

from . import core

CHECK = os.path.join(core.VERIF_DIR, "check")


def _run(prop, runs, env_extra, workers=None, start=0, timeout=3000):
    env = dict(os.environ)
    env.update(env_extra)
    cmd = [CHECK, prop, "--no-evidence", "--runs", str(runs), "--start", str(start)]
    if workers:
        cmd += ["--workers", str(workers)]
    p = subprocess.run(cmd, env=env, stdout=subprocess.PIPE, stderr=subprocess.STDOUT, timeout=timeout)
    out = p.stdout.decode(errors="replace")
    m = re.search(r"batch_digest=([0-9a-f]+)", out)
    return p.returncode, (m.group(1) if m else None), out


def determinism(argv):
    props = [a for a in argv if a.startswith("C")] or ["C05", "C06", "C19", "C20"]
    runs = {"C05": 300, "C06": 300, "C19": 4000, "C20": 3000}
    for a in argv:
        if a.startswith("--scale="):
            k = float(a.split("=")[1])
            runs = {p: int(n * k) for p, n in runs.items()}
    bad = 0
    for prop in props:
        variants = [({"XSIM_HASHSEED": "0"}, 16), ({"XSIM_HASHSEED": "0"}, 1), ({"XSIM_HASHSEED": "12345"}, 5),
                    ({"XSIM_HASHSEED": "random"}, 16), ({"XSIM_HASHSEED": "7"}, 3)]
        digs = []
        for env, w in variants:
            rc, dg, out = _run(prop, runs[prop], env, workers=w)
            digs.append((rc, dg))
            print("determinism %s hashseed=%s workers=%d -> rc=%d digest=%s" % (prop, env["XSIM_HASHSEED"], w, rc, dg))
            sys.stdout.flush()
        if len(set(digs)) != 1 or digs[0][1] is None:
            print("DETERMINISM-FAILURE %s: %s" % (prop, digs))
            bad += 1
    print("determinism selftest: %s" % ("FAILED" if bad else "ok"))
    return 2 if bad else 0


def mutants(argv):
    with_tests = "--with-tests" in argv
    props = [a for a in argv if re.match(r"^C\d+$", a)]
    names = [a for a in argv if not a.startswith("--") and not re.match(r"^C\d+$", a)]
    runs_override = None
    for a in argv:
        if a.startswith("--runs="):
            runs_override = int(a.split("=")[1])
    index = json.load(open(os.path.join(core.VERIF_DIR, "mutants", "index.json")))
    rows = []
    bad = 0
    for m in index:
        if props and not set(props) & set(m["properties"]):
            continue
        if names and m["name"] not in names:
            continue
        scratch = tempfile.mkdtemp(prefix="xsim-mut-")
        try:
            shutil.copytree(os.path.join("/repo", "xfab"), os.path.join(scratch, "xfab"),
                            ignore=shutil.ignore_patterns("__pycache__"))
            patch = os.path.join(core.VERIF_DIR, m["patch"])
            p = subprocess.run(["patch", "-p1", "-s", "-d", scratch, "-i", patch], stdout=subprocess.PIPE,
                               stderr=subprocess.STDOUT)
            if p.returncode != 0:
                print("PATCH-FAILED %s: %s" % (m["name"], p.stdout.decode()))
                bad += 1
                continue
            tests = ""
            if with_tests:
                shutil.copytree("/repo/test", os.path.join(scratch, "test"), ignore=shutil.ignore_patterns("__pycache__"))
                env = dict(os.environ, PYTHONPATH=scratch, PYTHONDONTWRITEBYTECODE="1")
                t = subprocess.run(["/venv/bin/python", "-m", "pytest", "-q", "-p", "no:cacheprovider", "-x", "test"],
                                   cwd=scratch, env=env, stdout=subprocess.PIPE, stderr=subprocess.STDOUT)
                tail = t.stdout.decode(errors="replace").strip().splitlines()[-1:]
                tests = "tests:" + ("pass" if t.returncode == 0 else "FAIL") + " " + " ".join(tail)
            for prop in m["properties"]:
                if props and prop not in props:
                    continue
                t0 = time.time()
                env = {"XFAB_SRC": scratch, "XSIM_REPLAY_DIR": os.path.join(scratch, "replays")}
                from .runner import DEFAULT_RUNS
                rc, dg, out = _run(prop, runs_override or DEFAULT_RUNS[prop]["quick"], env)
                want = 1 if m["kind"] == "mutant" else 0
                ok = (rc == want)
                if not ok:
                    bad += 1
                first = ""
                for ln in out.splitlines():
                    if ln.startswith("violation") or ln.startswith("HARNESS"):
                        first = ln[:230]
                        break
                rows.append((m["name"], prop, m["kind"], rc, ok))
                print("%-7s %-45s %s rc=%d %s %.0fs %s %s" % (m["kind"], m["name"], prop, rc,
                                                            "OK" if ok else "UNEXPECTED", time.time() - t0, tests, first))
                sys.stdout.flush()
        finally:
            shutil.rmtree(scratch, ignore_errors=True)
    det = sum(1 for r in rows if r[2] == "mutant" and r[3] == 1)
    nm = sum(1 for r in rows if r[2] == "mutant")
    sil = sum(1 for r in rows if r[2] == "control" and r[3] == 0)
    nc = sum(1 for r in rows if r[2] == "control")
    print("mutants detected %d/%d, controls silent %d/%d" % (det, nm, sil, nc))
    return 2 if bad else 0


def oracle(argv):
    """known-answer test of the trusted base: the operator-derived extinction rule of xsim.oracle_hkl, applied to the
    tree's own tables, must reproduce the reflection conditions of International Tables A for a few well-known groups"""
    import numpy as np
    core.import_xfab()
    from xfab import sg
    from . import oracle_hkl as O
    r = np.arange(-7, 8)
    H, K, L = np.meshgrid(r, r, r, indexing="ij")
    P = np.stack([H.ravel(), K.ravel(), L.ravel()], axis=1)
    P = P[np.any(P != 0, axis=1)]
    h, k, l = P[:, 0], P[:, 1], P[:, 2]
    ev = lambda x: x % 2 == 0   # noqa
    rules = {
        (225, "standard"): (ev(h) == ev(k)) & (ev(k) == ev(l)),
        (229, "standard"): ev(h + k + l),
        (221, "standard"): np.ones(len(P), bool),
        (62, "standard"): ~(((h == 0) & ~ev(k + l)) | ((l == 0) & ~ev(h))),
        (14, "standard"): ~(((k == 0) & ~ev(l)) | ((h == 0) & (l == 0) & ~ev(k))),
        (194, "standard"): ~(((h == k) | (h == -2 * k) | (k == -2 * h)) & ~ev(l)),
        (167, "standard"): ((-h + k + l) % 3 == 0) & ~((h == -k) & ~ev(l)) & ~((k == 0) & ~ev(l)) & ~((h == 0) & ~ev(l)),
        (227, "standard"): ((ev(h) == ev(k)) & (ev(k) == ev(l))) & ~((h == 0) & ((k + l) % 4 != 0)) &
                           ~((k == 0) & ((h + l) % 4 != 0)) & ~((l == 0) & ((h + k) % 4 != 0)),
    }
    bad = 0
    for (no, cc), allowed in sorted(rules.items()):
        g = sg.sg(sgno=no, cell_choice=cc)
        ext = O.extinct_mask(P, np.array(g.rot), np.array(g.trans))
        diff = int(np.sum(ext == allowed))          # ext must be the complement of allowed
        print("oracle known-answer sg %d (%s): %d of %d hkl disagree with International Tables" % (no, g.name, diff, len(P)))
        bad += diff
    # sin(theta)/lambda against d-spacing formulas
    Gs = O.recip_metric([4.0, 4.0, 4.0, 90, 90, 90])
    s111 = float(O.stl_of(np.array([[1, 1, 1]]), Gs)[0])
    ok = abs(s111 - (3 ** 0.5) / 8.0) < 1e-15
    Gs = O.recip_metric([3.0, 3.0, 5.0, 90, 90, 120])
    s100 = float(O.stl_of(np.array([[1, 0, 0]]), Gs)[0])
    ok = ok and abs(s100 - 1.0 / (2 * 3.0 * (3 ** 0.5) / 2)) < 1e-15
    print("oracle sin(theta)/lambda closed forms: %s" % ("ok" if ok else "WRONG"))
    print("oracle selftest: %s" % ("ok" if (bad == 0 and ok) else "FAILED"))
    return 0 if (bad == 0 and ok) else 2


def main(argv):
    if not argv:
        print("usage: selftest determinism|mutants|oracle ...")
        return 2
    if argv[0] == "determinism":
        return determinism(argv[1:])
    if argv[0] == "mutants":
        return mutants(argv[1:])
    if argv[0] == "oracle":
        return oracle(argv[1:])
    print("unknown selftest %r" % argv[0])
    return 2
