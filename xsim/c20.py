"""C20 -- the process-global input-check switch.

System: one client session (plus a simulated pre-empting second party) that assigns
xfab.CHECKS.activated and calls the guarded API.  Reference model: one boolean.
Seams: the public `activated` property, sys.settrace line events inside xfab frames.
"""
import math
import os
import sys
import warnings

from . import core

PROPERTY = "C20"

MODFUNCS = ["u_to_euler", "u_to_rod", "u_to_ubi", "ubi_to_u", "ubi_to_u_and_eps",
            "euler_to_u", "ub_to_u_b", "ubi_to_u_b"]
FNKEYS = ["%s.%s" % (m, f) for m in ("tools", "laue") for f in MODFUNCS] + ["symmetry.Umis"]
# which input class a function takes
FN_INPUT = {"u_to_euler": "U", "u_to_rod": "U", "u_to_ubi": "Ucell", "ubi_to_u": "ubi",
            "ubi_to_u_and_eps": "ubicell", "euler_to_u": "euler", "ub_to_u_b": "ub",
            "Umis": "umis", "ubi_to_u_b": "ubi"}

# public parameter names (frozen from the pinned tree): the calling convention is part of what a client may vary
KWNAMES = {"u_to_euler": ["U_matrix"], "u_to_rod": ["U_matrix"], "u_to_ubi": ["U_matrix", "unit_cell"],
           "ubi_to_u": ["ubi_matrix"], "ubi_to_u_and_eps": ["ubi_matrix", "unit_cell"],
           "euler_to_u": ["phi1", "PHI", "phi2"], "ub_to_u_b": ["UB_matrix"], "ubi_to_u_b": ["ubi_matrix"],
           "Umis": ["umat_1", "umat_2", "crystal_system"]}

VALID_ASSIGN = ["T", "F"]
INVALID_ASSIGN = ["int0", "int1", "int2", "int-1", "f0", "f1", "None", "sTrue", "sFalse",
                  "sEmpty", "sYes", "b1", "list", "listT", "tuple", "dict", "object",
                  "nparrTrue", "nan"]
# numpy.bool_ is "a True/False" to some readers and "not the bool singletons" to the code:
# either behaviour is accepted as long as the state stays consistent (see DESIGN 3.4).
AMBIG_ASSIGN = ["npTrue", "npFalse"]


def assign_value(tag):
    import numpy as np
    return {"T": True, "F": False, "int0": 0, "int1": 1, "int2": 2, "int-1": -1, "f0": 0.0,
            "f1": 1.0, "None": None, "sTrue": "True", "sFalse": "False", "sEmpty": "",
            "sYes": "yes", "b1": b"1", "list": [], "listT": [True], "tuple": (), "dict": {},
            "object": object(), "npTrue": np.bool_(True), "npFalse": np.bool_(False),
            "nparrTrue": np.array(True), "nan": float("nan")}[tag]


# ----------------------------------------------------------------------------- input generation
def _quat_matrix(q):
    import numpy as np
    w, x, y, z = q
    return np.array([[1 - 2 * (y * y + z * z), 2 * (x * y - z * w), 2 * (x * z + y * w)],
                     [2 * (x * y + z * w), 1 - 2 * (x * x + z * z), 2 * (y * z - x * w)],
                     [2 * (x * z - y * w), 2 * (y * z + x * w), 1 - 2 * (x * x + y * y)]])


def _gauss(rng):
    # Box-Muller from two unit draws (deterministic, getrandbits only)
    u1 = max(rng.unit(), 1e-300)
    u2 = rng.unit()
    return math.sqrt(-2 * math.log(u1)) * math.cos(2 * math.pi * u2)


def random_rotation(rng):
    import numpy as np
    while True:
        q = [_gauss(rng) for _ in range(4)]
        nrm = math.sqrt(sum(c * c for c in q))
        if nrm > 1e-3:
            break
    R = _quat_matrix([c / nrm for c in q])
    # one Newton step of re-orthonormalisation keeps |R^T R - I| at the 1e-16 level
    R = 0.5 * (R + np.linalg.inv(R).T)
    return R


def axis_rotation(rng):
    import numpy as np
    perms = [(0, 1, 2), (0, 2, 1), (1, 0, 2), (1, 2, 0), (2, 0, 1), (2, 1, 0)]
    while True:
        p = rng.choice(perms)
        M = np.zeros((3, 3))
        for i in range(3):
            M[i, p[i]] = 1.0 if rng.chance(0.5) else -1.0
        if round(np.linalg.det(M)) == 1:
            return M


def random_cell(rng):
    while True:
        a, b, c = [rng.uniform(2.0, 20.0) for _ in range(3)]
        al, be, ga = [rng.uniform(60.0, 120.0) for _ in range(3)]
        ca, cb, cg = [math.cos(math.radians(t)) for t in (al, be, ga)]
        v2 = 1 - ca * ca - cb * cb - cg * cg + 2 * ca * cb * cg
        if v2 > 0.2:
            return [a, b, c, al, be, ga]


def cell_rows(cell):
    """real-space lattice vectors as rows (right handed)"""
    import numpy as np
    a, b, c, al, be, ga = cell
    ca, cb, cg = [math.cos(math.radians(t)) for t in (al, be, ga)]
    sg = math.sin(math.radians(ga))
    av = [a, 0.0, 0.0]
    bv = [b * cg, b * sg, 0.0]
    cx = c * cb
    cy = c * (ca - cb * cg) / sg
    cz = math.sqrt(max(c * c - cx * cx - cy * cy, 0.0))
    return np.array([av, bv, [cx, cy, cz]])


def deviation(U):
    import numpy as np
    U = np.asarray(U, dtype=np.float64)
    return float(np.abs(U.T.dot(U) - np.eye(3)).max()), float(np.linalg.det(U))


def gen_U(rng, valid, for_fn):
    """returns (kind, ndarray) -- a rotation (valid) or a clearly invalid matrix"""
    import numpy as np
    for _ in range(1000):
        if valid:
            kind = rng.weighted([("exact", 4), ("axis", 1), ("f32val", 2), ("f32dtype", 2),
                                 ("perturb", 3)])
            if kind == "axis":
                U = axis_rotation(rng)
            else:
                U = random_rotation(rng)
                if kind == "f32val":
                    U = U.astype(np.float32).astype(np.float64)
                elif kind == "f32dtype":
                    U = U.astype(np.float32)
                elif kind == "perturb":
                    E = np.array([[rng.uniform(-0.999e-7, 0.999e-7) for _ in range(3)]
                                  for _ in range(3)])
                    U = U + E
        else:
            kind = rng.weighted([("stretch", 3), ("shear", 3), ("tilt", 3), ("offdiag", 2), ("diag_det1", 3), ("diag", 1),
                                 ("diag_pair", 2),
                                 ("entry", 2), ("improper", 2),
                                 ("neg", 1), ("scale", 1), ("axis_scale", 1), ("axis_bump", 2), ("axis_entry", 1)])
            R = random_rotation(rng)
            if kind.startswith("axis"):
                # perturbations of rotations that contain exact 0 / +-1 entries (signed permutations and
                # rotations about a coordinate axis)
                if rng.chance(0.5):
                    R = axis_rotation(rng)
                else:
                    t = rng.uniform(0.1, 3.0)
                    c_, s_ = math.cos(t), math.sin(t)
                    R = np.array([[c_, -s_, 0.0], [s_, c_, 0.0], [0.0, 0.0, 1.0]])
                    pm = axis_rotation(rng)
                    R = pm.dot(R).dot(pm.T) if rng.chance(0.5) else R
            if kind == "stretch":
                s = rng.loguniform(3e-3, 0.5)
                Q = random_rotation(rng)
                e = [rng.uniform(-s, s) for _ in range(3)]
                e[rng.below(3)] = s if rng.chance(0.5) else -s
                U = R.dot(np.eye(3) + Q.dot(np.diag(e)).dot(Q.T))
            elif kind == "shear":
                # volume preserving to first order: only the orthonormality test can catch it
                sm = rng.loguniform(6e-4, 0.5)
                Q = random_rotation(rng)
                t = rng.uniform(-1.0, 1.0)
                e = [sm, -sm * (1 + t) / 2, -sm * (1 - t) / 2]
                U = R.dot(np.eye(3) + Q.dot(np.diag(e)).dot(Q.T))
            elif kind == "entry":
                s = rng.loguniform(3e-3, 0.3)
                E = np.array([[rng.uniform(-s, s) for _ in range(3)] for _ in range(3)])
                U = R + E
            elif kind == "diag_pair":
                # two of the three axes rescaled by the SAME factor, the third left alone
                a_ = 1.0 + rng.loguniform(3e-3, 0.6) * (1 if rng.chance(0.5) else -1)
                f = [a_, a_, 1.0]
                rng.shuffle(f)
                U = R.dot(np.diag(f)) if rng.chance(0.7) else np.diag(f).dot(R)
            elif kind in ("diag_det1", "diag"):
                # columns (or rows) rescaled but kept perpendicular: only the LENGTHS are wrong; with "det1" the product
                # of the three factors is 1, so the determinant test cannot see it either
                a_ = 1.0 + rng.loguniform(3e-3, 0.6) * (1 if rng.chance(0.5) else -1)
                b_ = 1.0 + rng.loguniform(3e-3, 0.6) * (1 if rng.chance(0.5) else -1) if rng.chance(0.6) else 1.0
                c_ = 1.0 / (a_ * b_) if kind == "diag_det1" else 1.0
                f = [a_, b_, c_]
                rng.shuffle(f)
                U = R.dot(np.diag(f)) if rng.chance(0.7) else np.diag(f).dot(R)
            elif kind == "tilt":
                # one column rotated towards another, lengths kept: only the ANGLES between columns are wrong
                # (column norms stay 1, the determinant moves at second order only)
                e_ = rng.loguniform(1.2e-3, 0.5)
                i, j = rng.sample([0, 1, 2], 2)
                U = R.copy()
                U[:, i] = math.cos(e_) * R[:, i] + math.sin(e_) * R[:, j]
            elif kind == "offdiag":
                # U (I + A), A symmetric with zero diagonal: again angles only, to first order
                A = np.zeros((3, 3))
                sm = rng.loguniform(1.2e-3, 0.5)
                for (i, j) in ((0, 1), (0, 2), (1, 2)):
                    A[i, j] = A[j, i] = rng.uniform(-sm, sm)
                i, j = rng.choice([(0, 1), (0, 2), (1, 2)])
                A[i, j] = A[j, i] = sm if rng.chance(0.5) else -sm
                U = R.dot(np.eye(3) + A)
            elif kind == "axis_scale":
                sc = rng.loguniform(3e-3, 0.5) * (1 if rng.chance(0.7) else -1)
                U = R * (1.0 + sc)
            elif kind == "axis_bump":
                U = R.copy()
                ones = [(i, j) for i in range(3) for j in range(3) if abs(abs(R[i, j]) - 1.0) < 1e-12]
                cells_ = ones if (ones and rng.chance(0.8)) else [(rng.below(3), rng.below(3))]
                i, j = rng.choice(cells_)
                d = rng.loguniform(3e-3, 0.5)
                sign = 1.0 if U[i, j] >= 0 else -1.0
                U[i, j] += sign * d if rng.chance(0.7) else -sign * d
            elif kind == "axis_entry":
                E = np.array([[rng.uniform(-1, 1) for _ in range(3)] for _ in range(3)])
                U = R + E * rng.loguniform(3e-3, 0.3)
            elif kind == "improper":
                d = [1.0, 1.0, 1.0]
                d[rng.below(3)] = -1.0
                U = R.dot(np.diag(d))
            elif kind == "neg":
                U = -R
            else:
                s = rng.loguniform(3e-3, 0.5) * (1 if rng.chance(0.5) else -1)
                U = R * (1.0 + s)
            dev, det = deviation(U)
            if not (dev >= 1e-3 or abs(det - 1) >= 1e-3):
                continue
            if abs(det) < 0.05:
                continue
        if (not valid) or hazard_free(for_fn, U):
            # for invalid inputs a hazard of the unguarded code only matters while the switch is off:
            # it is recorded with the input and relaxes exactly that judgement
            return kind, U
    raise core.HarnessError("could not generate U for %s" % for_fn)


def hazard_free(fn, U):
    """True if the *unguarded* code of fn cannot raise ValueError by itself on U, so that a
    ValueError is attributable to the guard (pure function of the input, never of the code)."""
    import numpy as np
    U = np.asarray(U, dtype=np.float64)
    if fn == "u_to_rod":
        return abs(1 + U[0, 0] + U[1, 1] + U[2, 2]) >= 1e-3
    if fn == "u_to_euler":
        exact_axis = bool(np.all((U == 0) | (np.abs(U) == 1)))
        if exact_axis:
            return True
        return (abs(U[2, 2]) <= 1 - 1e-3 and max(abs(U[0, 2]), abs(U[1, 2])) >= 1e-3
                and max(abs(U[2, 0]), abs(U[2, 1])) >= 1e-3)
    return True


def gen_malformed(rng, fnname):
    """an input outside every class of the quantifier (wrong shape): the call may do anything, but
    whatever exception comes out, the switch must still hold the last valid assignment"""
    import numpy as np
    cls = FN_INPUT[fnname]
    shape = rng.choice([(2, 3), (3, 2), (3,), (1, 3)])
    M = np.array([[rng.uniform(-1, 1) for _ in range(shape[-1])] for _ in range(shape[0])]) if len(shape) == 2 \
        else np.array([rng.uniform(-1, 1) for _ in range(3)])
    cell = [core.fhex(x) for x in random_cell(rng)]
    if cls == "U" or cls == "ubi" or cls == "ub":
        args = [core.enc_array(M)]
    elif cls in ("Ucell", "ubicell"):
        args = [core.enc_array(M), cell]
    elif cls == "umis":
        args = [core.enc_array(M), core.enc_array(random_rotation(rng)), rng.between(1, 7)]
    else:  # euler: a vector where a scalar is expected
        return {"cls": cls, "valid": False, "malformed": True, "kind": "malformed", "args_arrays": [core.enc_array(M)] ,
                "args": [core.fhex(0.5), core.fhex(0.5), core.fhex(0.5)]}
    return {"cls": cls, "valid": False, "malformed": True, "kind": "malformed", "args": args}


def gen_input(rng, fnname, valid):
    """-> dict(cls, valid, kind, args=[encoded...])"""
    import numpy as np
    cls = FN_INPUT[fnname]
    off_hazard = False
    if cls in ("U", "Ucell"):
        kind, U = gen_U(rng, valid, fnname)
        off_hazard = not hazard_free(fnname, U)
        args = [core.enc_array(U)]
        if cls == "Ucell":
            args.append([core.fhex(x) for x in random_cell(rng)])
    elif cls == "umis":
        k1, U1 = gen_U(rng, True, fnname)
        k2, U2 = gen_U(rng, True, fnname)
        kind = "valid:%s,%s" % (k1, k2)
        if not valid:
            kb, Ub = gen_U(rng, False, fnname)
            r = rng.below(10)
            if r < 3:
                U1, kind = Ub, "first:" + kb
            elif r < 6:
                U2, kind = Ub, "second:" + kb
            elif r == 6:
                kc, Uc = gen_U(rng, False, fnname)
                U1, U2, kind = Ub, Uc, "both:%s,%s" % (kb, kc)
            elif r == 7:
                # the same invalid matrix twice: the relative rotation is the identity
                d = [1.0, 1.0, 1.0]
                d[rng.below(3)] = -1.0
                Ui = np.asarray(U1, dtype=np.float64).dot(np.diag(d))
                U1, U2, kind = Ui, Ui.copy(), "both:same_improper"
            elif r == 8:
                # two different improper matrices: their product is a proper rotation
                d1 = [1.0, 1.0, 1.0]
                d1[rng.below(3)] = -1.0
                d2 = [1.0, 1.0, 1.0]
                d2[rng.below(3)] = -1.0
                U1 = np.asarray(U1, dtype=np.float64).dot(np.diag(d1))
                U2 = np.asarray(U2, dtype=np.float64).dot(np.diag(d2))
                kind = "both:improper_pair"
            else:
                # complementary scaling: each argument is far from orthonormal, the product is not
                sc = 1.0 + rng.loguniform(3e-3, 0.5)
                U1 = np.asarray(U1, dtype=np.float64) * sc
                U2 = np.asarray(U2, dtype=np.float64) / sc
                kind = "both:complementary_scale"
        # Umis does no dtype conversion of its own; mixed dtypes are legal input
        args = [core.enc_array(U1), core.enc_array(U2), rng.between(1, 7)]
    elif cls == "euler":
        two_pi = 2 * math.pi
        ang = []
        for _ in range(3):
            r = rng.below(10)
            ang.append(0.0 if r == 0 else two_pi if r == 1 else rng.uniform(0.0, two_pi))
        kind = "inrange"
        if not valid:
            kind = "outside"
            idx = rng.sample([0, 1, 2], rng.between(1, 3))
            for i in idx:
                d = rng.loguniform(1e-3, 1.0)
                ang[i] = -d if rng.chance(0.5) else two_pi + d
        args = [core.fhex(a) for a in ang]
    elif cls in ("ubi", "ubicell"):
        cell = random_cell(rng)
        R = random_rotation(rng)
        ubi = cell_rows(cell).dot(R.T)
        kind = "righthanded"
        if valid and rng.chance(0.3):
            ubi = ubi.astype(np.float32).astype(np.float64)
            kind = "righthanded_f32"
        if not valid:
            if rng.chance(0.6):
                i, j = rng.sample([0, 1, 2], 2)
                ubi[[i, j]] = ubi[[j, i]]
                kind = "rows_swapped"
            else:
                i = rng.below(3)
                ubi[i] = -ubi[i]
                kind = "row_negated"
        args = [core.enc_array(ubi)]
        if cls == "ubicell":
            args.append([core.fhex(x) for x in random_cell(rng)])
    elif cls == "ub":
        R = random_rotation(rng)
        T = np.zeros((3, 3))
        for i in range(3):
            T[i, i] = rng.uniform(0.05, 0.5)
            for j in range(i + 1, 3):
                T[i, j] = rng.uniform(-0.1, 0.1)
        UB = R.dot(T)
        kind = "posdet"
        if not valid:
            if rng.chance(0.5):
                j = rng.below(3)
                UB[:, j] = -UB[:, j]
                kind = "column_negated"
            else:
                UB = -UB
                kind = "negated"
        args = [core.enc_array(UB)]
    else:
        raise AssertionError(cls)
    return {"cls": cls, "valid": bool(valid), "kind": kind, "args": args, "off_hazard": bool(off_hazard and not valid)}


def simplest_input(fnname, valid):
    """canonical simple input of the same class (used by the shrinker)"""
    import numpy as np
    cls = FN_INPUT[fnname]
    c = math.cos(0.5)
    s = math.sin(0.5)
    R = np.array([[c, -s, 0.0], [s, c, 0.0], [0.0, 0.0, 1.0]]).dot(
        np.array([[1.0, 0.0, 0.0], [0.0, c, -s], [0.0, s, c]]))
    cell = [core.fhex(x) for x in (4.0, 4.0, 4.0, 90.0, 90.0, 90.0)]
    bad = R.dot(np.diag([1.0, 1.0, 1.25]))
    if cls == "U":
        return {"cls": cls, "valid": valid, "kind": "simple", "args": [core.enc_array(R if valid else bad)]}
    if cls == "Ucell":
        return {"cls": cls, "valid": valid, "kind": "simple", "args": [core.enc_array(R if valid else bad), cell]}
    if cls == "umis":
        return {"cls": cls, "valid": valid, "kind": "simple",
                "args": [core.enc_array(R), core.enc_array(R if valid else bad), 7]}
    if cls == "euler":
        a = [0.5, 0.5, 0.5] if valid else [0.5, -0.5, 0.5]
        return {"cls": cls, "valid": valid, "kind": "simple", "args": [core.fhex(x) for x in a]}
    if cls in ("ubi", "ubicell"):
        ubi = (4.0 * np.eye(3)).dot(R.T)
        if not valid:
            ubi[[0, 1]] = ubi[[1, 0]]
        args = [core.enc_array(ubi)]
        if cls == "ubicell":
            args.append(cell)
        return {"cls": cls, "valid": valid, "kind": "simple", "args": args}
    if cls == "ub":
        UB = R.dot(np.diag([0.25, 0.25, 0.25]))
        if not valid:
            UB = -UB
        return {"cls": cls, "valid": valid, "kind": "simple", "args": [core.enc_array(UB)]}
    raise AssertionError(cls)


def decode_args(inp):
    cls = inp["cls"]
    a = inp["args"]
    if inp.get("malformed") and cls == "euler":
        v = core.dec_array(inp["args_arrays"][0])
        return [v, 0.5, 0.5]
    if cls == "U":
        return [core.dec_array(a[0])]
    if cls == "Ucell":
        return [core.dec_array(a[0]), [core.unhex(x) for x in a[1]]]
    if cls == "umis":
        return [core.dec_array(a[0]), core.dec_array(a[1]), int(a[2])]
    if cls == "euler":
        return [core.unhex(x) for x in a]
    if cls == "ubi":
        return [core.dec_array(a[0])]
    if cls == "ubicell":
        return [core.dec_array(a[0]), [core.unhex(x) for x in a[1]]]
    if cls == "ub":
        return [core.dec_array(a[0])]
    raise AssertionError(cls)


# ----------------------------------------------------------------------------- generator
def generate(rng, tier, index):
    n_ops = rng.between(2, 60)
    # swarm: which kinds are enabled in this run
    allow_invalid_assign = rng.chance(0.7)
    allow_preempt = rng.chance(0.5)
    allow_invalid_input = rng.chance(0.85)
    allow_malformed = rng.chance(0.3)
    n_fns = rng.between(1, len(FNKEYS))
    fns = sorted(rng.sample(FNKEYS, n_fns))
    n_inputs = rng.between(1, 8)
    inputs = []
    for _ in range(n_inputs):
        fk = rng.choice(fns)
        valid = (not allow_invalid_input) or rng.chance(0.5)
        if allow_malformed and rng.chance(0.25):
            inp = gen_malformed(rng, fk.split(".")[1])
        else:
            inp = gen_input(rng, fk.split(".")[1], valid)
        inp["fn"] = fk.split(".")[1]
        if not inp.get("malformed") and inp["cls"] != "euler":
            conts = [("ndarray", 6), ("readonly", 1), ("fortran", 1), ("noncontig", 1)]
            if inp["fn"] not in ("Umis", "ubi_to_u_and_eps"):
                conts.append(("list", 1))      # these two call methods of the array and are documented for numpy arrays
            inp["container"] = rng.weighted(conts)
        elif inp["cls"] == "euler" and not inp.get("malformed"):
            inp["container"] = rng.weighted([("float", 4), ("npfloat64", 1)])
        inp["callstyle"] = rng.weighted([("positional", 5), ("keyword", 2), ("mixed", 1)])
        inputs.append(inp)
    # functions that can consume each input (same function name, either module)
    by_fn = {}
    for i, inp in enumerate(inputs):
        by_fn.setdefault(inp["fn"], []).append(i)
    usable = [fk for fk in FNKEYS if fk.split(".")[1] in by_fn and
              (fk in fns or fk.replace("tools.", "laue.") in fns or fk.replace("laue.", "tools.") in fns)]
    ops = []
    p_assign = rng.choice([0.15, 0.3, 0.5, 0.7])
    # how often the client reads `activated` back after an operation (a read is itself an event that a
    # lazily refreshed switch could depend on, so it must not happen after every step in every run)
    p_read = rng.choice([1.0, 0.5, 0.2, 0.0])
    # the caller keeps its arrays and may overwrite one in place with the content of another (same function class)
    mutable = [i for i, inp in enumerate(inputs) if not inp.get("malformed") and inp["cls"] != "euler"
               and inp.get("container") != "list"]
    p_mutate = rng.choice([0.0, 0.05, 0.15])
    for _ in range(n_ops):
        rd = 1 if rng.chance(p_read) else 0
        if mutable and rng.chance(p_mutate):
            dst = rng.choice(mutable)
            srcs = [i for i, inp in enumerate(inputs) if i != dst and inp["fn"] == inputs[dst]["fn"]
                    and not inp.get("malformed")]
            if srcs:
                ops.append(["mutate", dst, rng.choice(srcs)])
                continue
        if rng.chance(p_assign):
            ops.append(["assign", _pick_assign(rng, allow_invalid_assign), rd])
        else:
            fk = rng.choice(usable)
            iid = rng.choice(by_fn[fk.split(".")[1]])
            if allow_preempt and rng.chance(0.4):
                if rng.chance(0.25):
                    fk2 = rng.choice(usable)
                    ops.append(["pcall", fk, iid, rng.below(1 << 16),
                                ["call", fk2, rng.choice(by_fn[fk2.split(".")[1]])], rd])
                else:
                    ops.append(["pcall", fk, iid, rng.below(1 << 16), _pick_assign(rng, allow_invalid_assign), rd])
            else:
                ops.append(["call", fk, iid, rd])
    cfg = {"fault_free": not (allow_invalid_assign or allow_preempt), "scribble": rng.chance(0.3),
           "logging": rng.weighted([("quiet", 5), ("default", 2), ("debug", 3)]), "clock": core.gen_clock(rng),
           "warnings": core.gen_warn(rng)}
    if rng.chance(0.01):
        cfg["import_env"] = rng.choice(core.IMPORT_ENVS)
    if rng.chance(0.3):
        # two real client threads (baton passing): which one performs each operation
        p1 = rng.choice([0.2, 0.5])
        cfg["threads"] = [1 if rng.chance(p1) else 0 for _ in ops]
    return {"property": PROPERTY, "config": cfg,
            "inputs": inputs, "ops": ops}


def _pick_assign(rng, allow_invalid):
    if allow_invalid and rng.chance(0.45):
        if rng.chance(0.1):
            return rng.choice(AMBIG_ASSIGN)
        return rng.choice(INVALID_ASSIGN)
    return rng.choice(VALID_ASSIGN)


# ----------------------------------------------------------------------------- executor
def canon_value(x):
    import numpy as np
    if isinstance(x, np.ndarray):
        return ["nd", str(x.dtype), list(x.shape), [float(v).hex() for v in x.astype(np.float64).ravel()]]
    if isinstance(x, (tuple, list)):
        return ["seq", [canon_value(v) for v in x]]
    if isinstance(x, (float, np.floating)):
        return ["f", float(x).hex()]
    if isinstance(x, (int, np.integer)):
        return ["i", int(x)]
    if x is None:
        return ["none"]
    return ["repr", repr(x)]


class _Violation(Exception):
    def __init__(self, clause, site, detail):
        Exception.__init__(self, clause)
        self.v = {"clause": clause, "site": site, "detail": detail}


def execute(trace):
    """Pure function of (trace, code under test).  Returns the run record."""

    import numpy as np
    xfab = core.import_xfab()
    from xfab import tools, laue, symmetry
    mods = {"tools": tools, "laue": laue, "symmetry": symmetry}
    src_prefix = os.path.join(os.path.realpath(core.xfab_src()), "xfab") + os.sep
    events = []
    counters = {}
    probes = {}

    def count(k, n=1):
        counters[k] = counters.get(k, 0) + n

    def rot_digest():
        # probe only: must never fail whatever shape the cache has
        try:
            R = symmetry.ROTATIONS
            items = sorted(R.items()) if isinstance(R, dict) else list(enumerate(R))
            return core.digest([[str(k), None if v is None else np.asarray(v).tobytes().hex()]
                                for k, v in items])
        except Exception:
            return "n/a"

    violation = None
    # every run starts from the documented initial state, set through the public API
    # prologue (part of every history): assign True, read it back.  Together with the epilogue below it
    # makes a run independent of whatever an earlier run in the same worker process left behind.
    try:
        xfab.CHECKS.activated = True
        if xfab.CHECKS.activated is not True:
            # either broken outright or dependent on what earlier histories of this process did; the runner
            # re-validates from a clean process and, failing that, carries the earlier runs along as a prelude
            violation = {"clause": "switch does not read True after assigning True", "site": "prologue",
                         "detail": "activated=%r" % (xfab.CHECKS.activated,)}
    except Exception as e:  # the reset itself is part of the property (valid assignment)
        violation = {"clause": "valid assignment rejected", "site": "assign",
                     "detail": "reset to True raised %s" % type(e).__name__}
    on = True
    rot0 = rot_digest()
    grams = set()
    kinds_seen = []
    first_value = {}     # (fn name, input id) -> canonical value of a valid input
    n_assign = n_call = 0
    inputs = trace["inputs"]

    from . import sched as _sched
    S = _sched.begin()
    thr = trace["config"].get("threads")        # per-op thread id (0 main, 1 the real second thread) or None

    def run_on(t, fn):
        """run fn on thread t (called from the main thread)"""
        if t:
            count("threads.ops_on_second_thread")
        return S.run_on(t, fn)

    def on_other(fn):
        """the OTHER real thread runs fn while the current one is parked (called from inside a trace function)"""
        return S.on_other(fn)

    def read_switch():
        return xfab.CHECKS.activated

    def do_assign(tag):
        """performs the assignment; returns (raised_type or None)"""
        v = assign_value(tag)
        try:
            xfab.CHECKS.activated = v
        except BaseException as e:  # noqa
            return type(e).__name__
        return None

    def model_assign(tag, raised, where):
        """update model / check outcome of one assignment; returns new model state"""
        nonlocal on
        if tag in VALID_ASSIGN:
            if raised is not None:
                raise _Violation("valid assignment rejected", where, "assigning %s raised %s" % (tag, raised))
            on = (tag == "T")
        elif tag in AMBIG_ASSIGN:
            if raised is None:
                on = (tag == "npTrue")
                count("relax.np_bool_accepted")
            elif raised != "ValueError":
                raise _Violation("invalid assignment raised wrong exception", where,
                                 "assigning %s raised %s" % (tag, raised))
        else:
            if raised != "ValueError":
                raise _Violation("invalid assignment not rejected with ValueError", where,
                                 "assigning %s -> %s" % (tag, raised or "no exception"))

    cur_thread = [0]

    def check_switch(where):
        cur = run_on(cur_thread[0], read_switch)
        if cur is not on:
            raise _Violation("switch state differs from last valid assignment", where,
                             "activated=%r model=%r" % (cur, on))

    scribble_rate = [1 if trace["config"].get("scribble") else 0]

    def _freeze_and_scribble(v):
        """returns a private deep copy of v and then overwrites every ndarray inside v in place"""
        import copy as _copy
        frozen = _copy.deepcopy(v)

        def walk(x):
            if isinstance(x, np.ndarray):
                try:
                    x[...] = 12345.0
                except (ValueError, TypeError):
                    pass
            elif isinstance(x, (list, tuple)):
                for y in x:
                    walk(y)
        walk(v)
        return frozen

    slots = {}      # input id -> the caller's argument objects (created once, reused for every call)
    loaded = {}     # input id -> index of the spec whose content the slot currently holds

    def containerise(a, container):
        if not isinstance(a, np.ndarray) or a.ndim != 2:
            return a
        if container == "readonly":
            a = a.copy()
            a.setflags(write=False)
        elif container == "fortran":
            a = np.asfortranarray(a)
        elif container == "noncontig":
            big = np.zeros((2 * a.shape[0], 2 * a.shape[1]), dtype=a.dtype)
            big[::2, ::2] = a
            a = big[::2, ::2]
        elif container == "list":
            a = a.tolist()
        return a

    def slot_of(iid):
        if iid not in slots:
            spec = inputs[iid]
            args_ = decode_args(spec)
            cont = spec.get("container", "ndarray")
            if spec["cls"] == "euler" and cont == "npfloat64":
                args_ = [np.float64(x) for x in args_]
            slots[iid] = [containerise(a, cont) for a in args_]
            loaded[iid] = iid
        return slots[iid]

    def overwrite(iid, src):
        """the caller writes the content of spec `src` into the objects of slot `iid`, in place"""
        dst_args = slot_of(iid)
        src_args = decode_args(inputs[src])
        for pos, (d_, s_) in enumerate(zip(dst_args, src_args)):
            if isinstance(d_, np.ndarray) and isinstance(s_, np.ndarray) and d_.shape == s_.shape:
                ro = not d_.flags.writeable
                if ro:
                    d_.setflags(write=True)
                np.copyto(d_, s_.astype(d_.dtype))
                if ro:
                    d_.setflags(write=False)
            else:
                dst_args[pos] = s_
        loaded[iid] = src

    def spec_of(iid):
        """the (validity, kind, hazard) the slot's current content has"""
        slot_of(iid)
        return inputs[loaded[iid]]

    def call(fk, iid, inject=None):
        """inject: None | (line_event_index, callable) ; returns (outcome, value, n_line_events, fired)"""
        modname, fname = fk.split(".")
        fn = getattr(mods[modname], fname)
        args = slot_of(iid)
        keep = [np.array(a, copy=True) if isinstance(a, np.ndarray) else a for a in args]
        nline = [0]
        fired = [False]

        def local(frame, event, arg):
            if event == "line":
                if inject is not None and nline[0] == inject[0] and not fired[0]:
                    fired[0] = True
                    inject[1]()
                nline[0] += 1
            return local

        def glob(frame, event, arg):
            if frame.f_code.co_filename.startswith(src_prefix):
                return local
            return None

        outcome, value = None, None
        use_trace = inject is not None
        if use_trace:
            sys.settrace(glob)
        try:
            try:
                style = inputs[iid].get("callstyle", "positional")
                names = KWNAMES.get(fname)
                if style == "positional" or not names or len(names) != len(args):
                    value = fn(*args)
                elif style == "keyword":
                    value = fn(**dict(zip(names, args)))
                else:
                    value = fn(args[0], **dict(zip(names[1:], args[1:])))
                outcome = "ok"
            except ValueError as e:
                outcome = "ValueError"
                value = type(e).__name__
            except Exception as e:  # noqa
                outcome = "Exc"
                value = type(e).__name__
        finally:
            if use_trace:
                sys.settrace(None)
            S.finish_other()
        if outcome == "ok" and scribble_rate[0] and (len(events) * 7 + len(fk)) % 3 == 0:
            # the caller owns what it was handed back and may reuse it as scratch space; later calls must not care.
            # (deterministic choice; the canonical value is taken first)
            value = _freeze_and_scribble(value)
            count("fault.caller_overwrites_returned_array")
        for a, k in zip(args, keep):
            if isinstance(a, np.ndarray) and a.tobytes() != k.tobytes():
                # the callee wrote into the caller's array: recorded, and the caller's content is put back so that
                # later steps of the history see the input the trace says they see
                count("probe.input_mutated_by_callee")
                ro = not a.flags.writeable
                if ro:
                    a.setflags(write=True)
                np.copyto(a, k)
                if ro:
                    a.setflags(write=False)
        return outcome, value, nline[0], fired[0]

    def judge(fk, iid, inp, outcome, value, states, where):
        """states: set of switch states the guard may legitimately have seen"""
        fname = fk.split(".")[1]
        if inp.get("malformed"):
            count("relax.malformed_input_outcome_not_judged")
            return
        if inp["valid"]:
            if outcome != "ok":
                raise _Violation("valid input rejected" if outcome == "ValueError" else "valid input raised",
                                 fk, "%s kind=%s states=%s -> %s" % (inp["cls"], inp["kind"], sorted(states), value))
            cv = canon_value(value)
            key = fk + "#" + str(iid) + "<-" + str(loaded.get(iid, iid))
            if key in first_value:
                if first_value[key][0] != cv:
                    raise _Violation("valid input: returned value differs between calls/switch states", fk,
                                     "kind=%s first seen with switch=%s now %s" % (inp["kind"], first_value[key][1], sorted(states)))
            else:
                first_value[key] = (cv, sorted(states))
        else:
            may_raise = True in states
            may_pass = False in states
            if outcome == "ValueError" and not may_raise and inp.get("off_hazard"):
                count("relax.unguarded_code_may_raise_valueerror_itself")
                return
            if outcome == "ValueError" and not may_raise:
                raise _Violation("ValueError raised while switched off", fk,
                                 "%s kind=%s" % (inp["cls"], inp["kind"]))
            if outcome != "ValueError" and not may_pass:
                raise _Violation("invalid input accepted while switched on", fk,
                                 "%s kind=%s -> %s" % (inp["cls"], inp["kind"], outcome))

    clock = core.sim_clock(trace["config"].get("clock"))
    with core.warn_config(trace["config"].get("warnings", "ignore")), np.errstate(all="ignore"), \
            core.log_config(trace["config"].get("logging", "quiet")), clock:
        count("logging." + (trace["config"].get("logging") or "quiet"))
        try:
            if violation is not None:
                raise _Violation(violation["clause"], violation["site"], violation["detail"])
            check_switch("start")
            for opi, op in enumerate(trace["ops"]):
                kind = op[0]
                t_op = int(thr[opi]) if (thr and opi < len(thr)) else 0
                cur_thread[0] = t_op
                if kind == "assign":
                    tag = op[1]
                    before = on
                    raised = run_on(t_op, lambda: do_assign(tag))
                    n_assign += 1
                    count("tt.%s|assign|%s" % (int(before), tag))
                    if tag not in VALID_ASSIGN:
                        count("fault.invalid_assignment")
                    events.append([opi, "assign", tag, raised])
                    model_assign(tag, raised, "assign")
                    if len(op) < 3 or op[2]:
                        check_switch("assign")
                        count("reads.after_assign")
                elif kind == "mutate":
                    dst, src = op[1], op[2]
                    if max(dst, src) >= len(inputs) or inputs[dst] is None or inputs[src] is None:
                        continue
                    if inputs[dst]["fn"] != inputs[src]["fn"] or inputs[dst].get("malformed") or inputs[src].get("malformed") \
                            or inputs[dst].get("container") == "list" or inputs[dst]["cls"] == "euler":
                        continue
                    overwrite(dst, src)
                    count("fault.caller_overwrites_array_in_place")
                    events.append([opi, "mutate", dst, src])
                elif kind in ("call", "pcall"):
                    fk, iid = op[1], op[2]
                    if iid >= len(inputs) or inputs[iid] is None:
                        continue
                    if FN_INPUT[fk.split(".")[1]] != inputs[iid]["cls"]:
                        continue
                    inp = spec_of(iid)
                    n_call += 1
                    cls_tag = "valid" if inp["valid"] else ("malformed" if inp.get("malformed") else "invalid")
                    if kind == "call":
                        outcome, value, _, _ = run_on(t_op, lambda: call(fk, iid))
                        count("tt.%s|call|%s|%s" % (int(on), fk, cls_tag))
                        count("container.%s" % inputs[iid].get("container", "n/a"))
                        count("callstyle.%s" % inputs[iid].get("callstyle", "positional"))
                        if outcome != "ok":
                            count("fault.exception_out_of_guarded_call")
                        events.append([opi, "call", fk, iid, outcome, core.digest(canon_value(value))[:16]])
                        judge(fk, iid, inp, outcome, value, {on}, fk)
                        if len(op) < 4 or op[3]:
                            check_switch(fk)
                    else:
                        k, tag = op[3], op[4]
                        # pass 1: plain traced call, counts the pre-emption points and is itself judged
                        outcome, value, nline, _ = run_on(t_op, lambda: call(fk, iid, inject=(-1, None)))
                        judge(fk, iid, inp, outcome, value, {on}, fk)
                        if nline == 0:
                            raise core.HarnessError("no line events traced inside %s" % fk)
                        at = k % nline
                        before = on
                        res = {}

                        second_call = isinstance(tag, list)
                        if second_call:
                            # the second party makes a guarded call of its own in the middle of ours: it must see the
                            # switch exactly as the model has it (nobody is assigning)
                            fk2, iid2 = tag[1], tag[2]
                            if iid2 >= len(inputs) or inputs[iid2] is None or \
                                    FN_INPUT[fk2.split(".")[1]] != inputs[iid2]["cls"]:
                                continue
                            inp2 = spec_of(iid2)

                            def action0():
                                res["second"] = call(fk2, iid2)
                        else:
                            def action0():
                                res["raised"] = do_assign(tag)
                        def action():
                            # the second party is a real thread: the action runs there while this one is parked
                            count("threads.preemptions_on_other_thread")
                            on_other(action0)
                        outcome, value, nline2, fired = run_on(t_op, lambda: call(fk, iid, inject=(at, action)))
                        if second_call:
                            count("fault.preempting_guarded_call")
                            count("preempt_point.%s@%d" % (fk, at))
                            if not fired:
                                action()
                            o2, v2 = res["second"][0], res["second"][1]
                            events.append([opi, "pcall2", fk, iid, at, fk2, iid2, outcome, o2,
                                           core.digest(canon_value(value))[:16]])
                            judge(fk2, iid2, inp2, o2, v2, {on}, fk2 + "-during-" + fk)
                            judge(fk, iid, inp, outcome, value, {on}, fk)
                            if len(op) < 6 or op[5]:
                                check_switch("after-preempted-" + fk)
                            continue
                        count("tt.%s|pcall|%s|%s|%s" % (int(before), fk, cls_tag,
                                                         "valid" if tag in VALID_ASSIGN else "invalid"))
                        count("fault.preempting_assignment")
                        count("preempt_point.%s@%d" % (fk, at))
                        if not fired:
                            # the call left xfab code before reaching line `at` (e.g. it raised earlier
                            # because of the first guard); the second party then runs after the call
                            action()
                            count("probe.preempt_after_return")
                        events.append([opi, "pcall", fk, iid, at, tag, res.get("raised"), outcome,
                                       core.digest(canon_value(value))[:16]])
                        model_assign(tag, res.get("raised"), "assign-during-" + fk)
                        after = on
                        judge(fk, iid, inp, outcome, value, {before, after}, fk)
                        if not inp["valid"] and before != after:
                            count("probe.preempt_outcome.%s" % ("saw_before" if (outcome == "ValueError") == before else "saw_after"))
                        if len(op) < 6 or op[5]:
                            check_switch("after-preempted-" + fk)
            check_switch("end-of-history")
            if rot_digest() != rot0:
                count("probe.rotations_cache_changed")
        except _Violation as v:
            violation = v.v
            violation["op_index"] = len(events)
        finally:
            sys.settrace(None)
            try:
                for k_, v_ in S.stats.items():
                    count("probe." + k_, v_)
                _sched.end()
            except Exception:
                pass
            try:
                # epilogue: leave a settled, read-back True for the next run of this worker
                xfab.CHECKS.activated = False
                _ = xfab.CHECKS.activated
                xfab.CHECKS.activated = True
                _ = xfab.CHECKS.activated
            except Exception:
                pass
    probes["same_switch_object"] = bool(tools.CHECKS is xfab.CHECKS and laue.CHECKS is xfab.CHECKS
                                        and symmetry.CHECKS is xfab.CHECKS) if all(
        hasattr(m, "CHECKS") for m in (tools, laue, symmetry)) else False
    for e in events:
        kinds_seen.append("%s:%s" % (e[1], e[2] if e[1] != "assign" else ("valid" if e[2] in VALID_ASSIGN else "invalid")))
        if len(kinds_seen) >= 3:
            grams.add(">".join(kinds_seen[-3:]))
    return {"violation": violation, "events": events, "counters": counters, "sets": {"grams": sorted(grams)},
            "nontrivial": n_assign >= 1 and n_call >= 1, "steps": len(events), "probes": probes,
            "fault_free": all(op[0] != "pcall" and (op[0] != "assign" or op[1] in VALID_ASSIGN)
                              for op in trace["ops"])}


# ----------------------------------------------------------------------------- shrinking
def shrink_candidates(trace):
    """Yield strictly simpler traces (ops removed first, then simplifications)."""
    import copy
    ops = trace["ops"]
    n = len(ops)
    thr = trace["config"].get("threads")
    # drop chunks of ops (ddmin style granularity)
    size = n // 2
    while size >= 1:
        for start in range(0, n, size):
            t = copy.deepcopy(trace)
            t["ops"] = ops[:start] + ops[start + size:]
            if thr:
                t["config"]["threads"] = thr[:start] + thr[start + size:]
            if len(t["ops"]) < n:
                yield t
        size //= 2
    if thr:
        t = copy.deepcopy(trace)
        del t["config"]["threads"]
        yield t
    if trace["config"].get("import_env"):
        t = copy.deepcopy(trace)
        del t["config"]["import_env"]
        yield t
    for i, op in enumerate(ops):
        if op[0] == "pcall":
            t = copy.deepcopy(trace)
            t["ops"][i] = ["call", op[1], op[2], op[5] if len(op) > 5 else 1]
            yield t
            if op[3] != 0:
                t = copy.deepcopy(trace)
                t["ops"][i][3] = 0
                yield t
        if op[0] == "assign" and op[1] not in ("T", "F", "int0"):
            t = copy.deepcopy(trace)
            t["ops"][i][1] = "int0"
            yield t
    used = set(op[2] for op in ops if op[0] in ("call", "pcall"))
    used |= set(op[4][2] for op in ops if op[0] == "pcall" and isinstance(op[4], list))
    used |= set(x for op in ops if op[0] == "mutate" for x in op[1:3])
    for i, inp in enumerate(trace["inputs"]):
        if inp is None:
            continue
        if i not in used:
            t = copy.deepcopy(trace)
            t["inputs"][i] = None
            yield t
        elif inp["kind"] not in ("simple", "malformed"):
            t = copy.deepcopy(trace)
            s = simplest_input(inp["fn"], inp["valid"])
            s["fn"] = inp["fn"]
            if "container" in inp:
                s["container"] = inp["container"]
            if "callstyle" in inp:
                s["callstyle"] = inp["callstyle"]
            t["inputs"][i] = s
            yield t


def trace_size(trace):
    return (len(trace["ops"]), 1 if trace["config"].get("threads") else 0, sum(1 for op in trace["ops"] if op[0] == "pcall"),
            sum(1 for i in trace["inputs"] if i is not None and i["kind"] not in ("simple", "malformed")),
            sum(1 for i in trace["inputs"] if i is not None))


RULE = ("one run = one seeded history (2-60 ops) of assignments to xfab.CHECKS.activated (valid, invalid, numpy.bool_) "
        "and guarded calls (plain or pre-empted at a traced line by a simulated second party) on generated valid / "
        "clearly-invalid inputs; distinct = distinct trace digest; non-trivial = at least one assignment and one "
        "guarded call were executed")


def sample_view(trace):
    return {"ops": trace["ops"][:12], "n_ops": len(trace["ops"]),
            "inputs": [{"fn": i["fn"], "cls": i["cls"], "valid": i["valid"], "kind": i["kind"]}
                       for i in trace["inputs"] if i]}


def coverage_extra(prop, merged, pre):
    c = merged["counters"]
    tt = {k[3:]: v for k, v in c.items() if k.startswith("tt.")}
    pp = [k for k in c if k.startswith("preempt_point.")]
    return {
        "transition_table_entries_hit": len(tt),
        "transition_table_hits": sum(tt.values()),
        "distinct_preemption_points": len(pp),
        "distinct_op_3grams": len(merged["sets"].get("grams", [])),
        "faults_fired": {k[6:]: v for k, v in c.items() if k.startswith("fault.")},
        "relaxations_applied": {k[6:]: v for k, v in c.items() if k.startswith("relax.")},
        "probes": {k[6:]: v for k, v in c.items() if k.startswith("probe.")},
        "counters": {k: v for k, v in c.items() if not k.startswith(("tt.", "preempt_point."))},
        "real_vs_stub": {"real": ["xfab/checks.py", "xfab/__init__.py", "every guarded function in xfab.tools, xfab.laue, xfab.symmetry"],
                         "simulated": ["the pre-empting second party (one atomic attribute store at a traced line event)"]},
    }


def assumptions(prop):
    return ["normal interpreter: under python -O (__debug__ False) `activated` reads False by documented design",
            "valid rotations deviate from orthonormality by < 1e-6 (float64, float32 values, float32 dtype, entrywise perturbation < 1e-7); "
            "clearly invalid ones by >= 1e-3 in U^T U - I or in the determinant",
            "inputs are generated so that the unguarded code cannot raise ValueError of its own (no 180-degree rotations for u_to_rod, no "
            "near-gimbal-lock for u_to_euler), so a ValueError is attributable to the guard",
            "numpy.bool_ assignments may be accepted or rejected; malformed (wrong-shape) inputs only have to leave the switch intact"]
