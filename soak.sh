#!/bin/bash
# false-alarm soak on the unchanged tree: quick tier of every check under many VERIF_SEED values
# usage: soak.sh <first seed> <count> [workers]
first=${1:-1000}; count=${2:-50}; w=${3:-8}
bad=0
for ((s=first; s<first+count; s++)); do
  for p in C05 C06 C19 C20; do
    out=$(VERIF_SEED=$s ./check $p --no-evidence --workers $w 2>&1); rc=$?
    line=$(echo "$out" | grep -E '^runs=' | tail -1)
    echo "seed=$s $p rc=$rc $line"
    if [ $rc -ne 0 ]; then bad=$((bad+1)); echo "$out" | grep -E 'violation|VIOLATION|HARNESS' | head -5; fi
  done
done
echo "soak finished: $bad non-zero exits out of $((count*4)) checks"
